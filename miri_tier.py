#!/usr/bin/env python3
"""Second, slower simulator for the non-JIT code (thorough tiers of C06, C09, C18): runs the same
generated checks in-process under Miri, which decides every out-of-bounds, uninitialised
or leaked access in Rust's abstract machine. Usage: miri_tier.py <ID> <seed> <runs>
Exit 0 = clean, 1 = violation (prints the VIOLATION line), 2 = harness error."""
import json, os, subprocess, sys, time, hashlib

def main():
    pid, seed, runs = sys.argv[1], int(sys.argv[2]), int(sys.argv[3])
    verif = os.path.dirname(os.path.abspath(__file__))
    env = dict(os.environ)
    env["CARGO_NET_OFFLINE"] = "true"
    env["MIRIFLAGS"] = "-Zmiri-disable-isolation"
    t0 = time.time()
    chunks = 8
    per = max(1, runs // chunks)
    procs = []
    for k in range(chunks):
        cmd = ["cargo", "+nightly", "miri", "run", "--offline", "-q", "-p", "engine", "--", "inproc", pid, str(seed), str(k * per), str(per)]
        procs.append((k, subprocess.Popen(cmd, cwd=os.path.join(verif, "sim"), env=env, stdout=subprocess.PIPE, stderr=subprocess.PIPE, text=True)))
        if k == 0:
            # let the first one build the Miri sysroot and the crates alone
            procs[0][1].wait()
    checks = 0
    bad = None
    for k, p in procs:
        out, err = p.communicate()
        last_check = None
        for l in out.splitlines():
            if l.startswith("CHECK "):
                last_check = l.split(" ", 2)[2]
                checks += 1
        if p.returncode != 0 and bad is None:
            what = "miri-error"
            for l in out.splitlines():
                if l.startswith("INPROC-VIOLATION"):
                    what = l
            if "Undefined Behavior" in err:
                what = "miri-undefined-behaviour"
            elif "memory leaked" in err:
                what = "miri-memory-leak"
            elif what == "miri-error" and ("error: could not compile" in err or "error[E" in err):
                print("HARNESS-ERROR: miri build failed\n" + err[-2000:], file=sys.stderr)
                return 2
            bad = (what, last_check, err[-3000:])
    wall = time.time() - t0
    ev_path = os.path.join(verif, "evidence", pid + ".json")
    try:
        ev = json.load(open(ev_path))
        ev["coverage"]["miri"] = {"checks_run_under_miri": checks, "runs": per * chunks, "wall_s": round(wall, 1),
                                  "what": "the same generated checks, executed in-process by the Miri interpreter (no JIT, no guard zone): out-of-bounds, uninitialised reads, invalid frees and leaks are decided in the abstract machine",
                                  "result": "clean" if bad is None else bad[0]}
        if bad is not None:
            ev["violations"] = ev.get("violations", 0) + 1
        json.dump(ev, open(ev_path, "w"), indent=1)
    except Exception as e:
        print("HARNESS-ERROR: cannot update evidence:", e, file=sys.stderr)
        return 2
    if bad is None:
        print(f"miri tier: property={pid} checks={checks} clean wall_s={wall:.0f}")
        return 0
    what, check, err = bad
    d = os.path.join(verif, "replays", pid)
    os.makedirs(d, exist_ok=True)
    body = {"property": pid, "profile": "miri", "class": what, "check": json.loads(check) if check else None, "miri_stderr_tail": err,
            "how_to_replay": f"cd /verif/sim && MIRIFLAGS=-Zmiri-disable-isolation cargo +nightly miri run --offline -p engine -- inproc {pid} {seed} <run> 1"}
    name = hashlib.sha1(json.dumps(body, sort_keys=True).encode()).hexdigest()[:16] + ".json"
    json.dump(body, open(os.path.join(d, name), "w"), indent=1)
    print(f"VIOLATION property={pid} replay={os.path.join(d, name)}")
    print(f"  class={what} (Miri)")
    return 1

if __name__ == "__main__":
    sys.exit(main())
