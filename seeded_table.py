#!/usr/bin/env python3
"""Prints the markdown table of seeded breaking changes (section 8 of DESIGN.md) from /verif/seeded/*/meta.json."""
import json, glob, os
rows = []
for d in sorted(glob.glob('/verif/seeded/*')):
    m = json.load(open(os.path.join(d, 'meta.json')))
    name = os.path.basename(d)
    fe = m.get('first_evaluation') or {}
    caught_first = fe.get('exit') == 1
    later = m.get('after_strengthening')
    if caught_first and not (later and later.startswith('NOT a first-attempt')):
        res = 'caught by `./check %s quick`' % m['property']
        cls = (fe.get('first_violation') or '')
        import re
        mm = re.search(r'class=(\S+)', cls)
        if mm: res += ' (%s)' % mm.group(1)
    elif later:
        res = '**missed at first**; ' + later
    elif m.get('not_detected_note'):
        res = '**not detected** — ' + m['not_detected_note']
    else:
        res = '**missed**'
    summ = (m.get('summary') or '').replace('|', '/').replace('\n', ' ')
    if len(summ) > 230: summ = summ[:227] + '…'
    rows.append('| %s | %s | %s | %s |' % (name, m['property'], summ, res))
print('| seeded change | property | what it does | result |\n|---|---|---|---|')
print('\n'.join(rows))
