#!/bin/bash
# run_all.sh <quick|thorough>: run every registered check, validate evidence files
tier=${1:-quick}
cd /verif
rc_all=0
for id in $(python3 -c "import json; print(' '.join(c['property_id'] for c in json.load(open('MANIFEST.json'))['checks']))"); do
  t0=$(date +%s)
  out=$(./check $id $tier 2>&1); rc=$?
  t1=$(date +%s)
  echo "$id rc=$rc secs=$((t1-t0)) $(echo "$out" | grep -E '^property=' | cut -c1-160)"
  echo "$out" | grep -E "^VIOLATION|^KNOWN-FINDING|HARNESS-ERROR|^NOTE" | head -5
  [ $rc -ne 0 ] && rc_all=1
done
python3-vt - <<'PY'
import json,jsonschema,glob
sch=json.load(open('/root/.vp/EVIDENCE.schema.json'))
for f in sorted(glob.glob('/verif/evidence/*.json')):
    try:
        jsonschema.validate(json.load(open(f)), sch); print('evidence ok', f)
    except Exception as e:
        print('EVIDENCE INVALID', f, str(e)[:200])
PY
exit $rc_all
