#!/bin/bash
# determinism.sh [count]: every property, same seeds, 16 workers vs 3 workers, and a second run at 16:
# per-run digests (hash of every check and its verdict) must be identical.
cd /verif/sim
N=${1:-2000}
fail=0
for id in C01 C02 C03 C04 C05 C06 C07 C08 C09 C10 C11 C13 C16 C17 C18; do
  extra=""; case $id in C02|C07|C13) extra="--dbg-bin target/dbg/sim";; esac
  ./target/release/sim run $id quick --count $N --workers 16 --no-evidence --print-digests $extra 2>/dev/null | grep ^DIGEST | sort > /tmp/det_a.txt
  ./target/release/sim run $id quick --count $N --workers 16 --no-evidence --print-digests $extra 2>/dev/null | grep ^DIGEST | sort > /tmp/det_b.txt
  if [ -n "$extra" ]; then w=6; else w=3; fi
  ./target/release/sim run $id quick --count $N --workers $w --no-evidence --print-digests $extra 2>/dev/null | grep ^DIGEST | sort > /tmp/det_c.txt
  na=$(wc -l < /tmp/det_a.txt)
  if cmp -s /tmp/det_a.txt /tmp/det_b.txt && cmp -s /tmp/det_a.txt /tmp/det_c.txt && [ "$na" -gt 0 ]; then
    echo "$id deterministic: $na run digests identical across 2 runs at 16 workers and 1 run at $w workers"
  else
    echo "$id NOT DETERMINISTIC: $(diff /tmp/det_a.txt /tmp/det_b.txt | head -3) $(diff /tmp/det_a.txt /tmp/det_c.txt | head -3)"; fail=1
  fi
done
exit $fail
