#!/bin/bash
# seeded_eval.sh <patch.diff> <ID> [<ID>...]: apply a seeded change to /repo, run the quick checks of
# the given properties, undo the change. Prints one line per property.
P=$1; shift
cd /repo || exit 9
if ! git diff --quiet; then echo "repo dirty"; exit 9; fi
git apply "$P" || { echo "APPLY-FAIL $P"; exit 9; }
for id in "$@"; do
  t0=$(date +%s)
  out=$(cd /verif && timeout 1500 ./check $id quick 2>&1)
  rc=$?
  t1=$(date +%s)
  v=$(echo "$out" | grep -A1 "^VIOLATION" | head -2 | tr '\n' ' ' | cut -c1-300)
  echo "RESULT patch=$P prop=$id rc=$rc secs=$((t1-t0)) :: $v"
done
git -C /repo checkout -- .
