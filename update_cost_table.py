#!/usr/bin/env python3
"""Rewrites the per-check rows of DESIGN.md section 9 from a run_all.sh log (argument)."""
import re, sys
log = open(sys.argv[1]).read()
rows = {}
for m in re.finditer(r'^(C\d\d) rc=(\d+) secs=(\d+) property=\S+ runs=(\d+) checks=(\d+) executions=(\d+)', log, re.M):
    rows[m.group(1)] = (int(m.group(3)), int(m.group(4)), int(m.group(5)), int(m.group(6)))
p = '/verif/DESIGN.md'; s = open(p).read()
def repl(m):
    pid = m.group(1)
    if pid not in rows: return m.group(0)
    secs, runs, checks, execs = rows[pid]
    n = lambda x: f"{x:,}".replace(',', ' ')
    return f"| {pid} quick | {n(runs)} runs, {n(checks)} checks, {n(execs)} executions of real code: ≈ {secs} s wall (including cargo finding both profiles up to date) |"
s = re.sub(r'^\| (C\d\d) quick[^\n]*\|$', repl, s, flags=re.M)
open(p, 'w').write(s)
print('updated', sorted(rows))
