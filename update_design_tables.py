#!/usr/bin/env python3
"""Regenerates the seeded-changes table and its summary sentence in DESIGN.md section 8."""
import subprocess, json, glob, re
table = subprocess.run(['python3', '/verif/seeded_table.py'], capture_output=True, text=True).stdout.rstrip()
p = '/verif/DESIGN.md'; s = open(p).read()
s = re.sub(r'<!-- SEEDED-TABLE-BEGIN -->.*?<!-- SEEDED-TABLE-END -->', lambda m: '<!-- SEEDED-TABLE-BEGIN -->\n' + table + '\n<!-- SEEDED-TABLE-END -->', s, flags=re.S)
metas = [json.load(open(f)) for f in glob.glob('/verif/seeded/*/meta.json')]
n = len(metas)
first = sum(1 for m in metas if (m.get('first_evaluation') or {}).get('exit') == 1 and not (m.get('after_strengthening') or '').startswith('NOT a first'))
later = sum(1 for m in metas if m.get('detected')) - first
notdet = n - first - later
counts = f"{n} (caught by the quick check of their property at the first attempt: {first}; missed at first, or first attempt without a verdict, and caught after a general strengthening: {later}; not detected: {notdet})"
s = re.sub(r'<!-- SEEDED-COUNTS-BEGIN -->.*?<!-- SEEDED-COUNTS-END -->', lambda m: '<!-- SEEDED-COUNTS-BEGIN -->' + counts + '<!-- SEEDED-COUNTS-END -->', s, flags=re.S)
import os, collections
gen = collections.defaultdict(lambda: [0, 0])
for f in glob.glob('/verif/seeded/*/meta.json'):
    m = json.load(open(f)); name = os.path.basename(os.path.dirname(f))
    suf = re.match(r'C\d\d([a-z]?)-', name).group(1) or 'a'
    ok = (m.get('first_evaluation') or {}).get('exit') == 1 and not (m.get('after_strengthening') or '').startswith('NOT a first')
    gen[suf][0] += 1; gen[suf][1] += ok
gens = ', '.join(f"{v[1]} of {v[0]}" for k, v in sorted(gen.items()))
s = re.sub(r'<!-- SEEDED-GEN-BEGIN -->.*?<!-- SEEDED-GEN-END -->', lambda m: '<!-- SEEDED-GEN-BEGIN -->' + gens + '<!-- SEEDED-GEN-END -->', s, flags=re.S)
open(p, 'w').write(s)
print(n, 'seeded changes;', first, 'caught at first attempt;', n - first, 'needed strengthening')
