#!/usr/bin/env python3
"""Counts over /verif/seeded/*/meta.json (used for the prose of DESIGN.md section 8)."""
import json, glob, os, collections
tot = first = later = notdet = 0
per = collections.Counter()
for d in sorted(glob.glob('/verif/seeded/*')):
    m = json.load(open(os.path.join(d, 'meta.json')))
    tot += 1
    fe = m.get('first_evaluation') or {}
    a = m.get('after_strengthening') or ''
    if fe.get('exit') == 1 and not a.startswith('NOT a first-attempt'):
        first += 1; per[m['property'], 'first'] += 1
    elif m.get('detected'):
        later += 1; per[m['property'], 'later'] += 1
    else:
        notdet += 1; per[m['property'], 'not'] += 1
print(f"total={tot} first_attempt={first} after_strengthening={later} not_detected={notdet}")
for p in sorted({k[0] for k in per}):
    print(p, 'first', per[p, 'first'], 'later', per[p, 'later'], 'not', per[p, 'not'])
