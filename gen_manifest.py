#!/usr/bin/env python3
"""Writes MANIFEST.json from one table, so that it stays consistent with what is built."""
import json, subprocess

def repo_commits(prefix):
    out = subprocess.run(["git", "-C", "/repo", "log", "--format=%H %s"], capture_output=True, text=True).stdout
    return [l.split()[0] for l in out.splitlines() if l.split(" ", 1)[1].startswith(prefix)]

TECH = "deterministic simulation with fault injection: seeded search over generated programs, reactive I/O peers, {extra}; oracle = event-history refinement against an executable reference model; failures minimised to a replay file"

CHECKS = {
 "C01": ("exploration", "3+5.C01", "reactive peer and EOF position; faults off",
         "IR interpreter at levels 0,1,2,3 and one level >3 produces the canonical interleaved input-request/output history on every generated (program, width, peer) scenario; 10% of runs under the guard allocator. Sampling of a very large space: evidence, not proof.",
         "reference model R0/R1 is canonical Brainfuck; programs <= ~6k chars, canonical steps <= 4e5 (quick) / 4e6 (thorough); verdicts only from `execute` (limited mode is a hang predictor)"),
 "C02": ("exploration", "3+5.C02", "reactive peer and EOF position; both build profiles (debug-assertions trampoline and release tail calls); faults off",
         "Bytecode interpreter at levels 0..3 produces the canonical history in BOTH harness builds (profile dbg: debug assertions + overflow checks; profile rel: release) on identical seeds.",
         "as C01; the dbg profile is opt-level 2 with debug-assertions (cfg(debug_assertions) selects the trampolined dispatcher), not opt-level 0"),
 "C03": ("exploration", "3+5.C03", "reactive peer, register junk on every runtime call (ABI-legal clobber of all caller-saved registers), random legal pre-growth so tape growth happens at many Mov sites",
         "Baseline JIT machine code, run on the real CPU, produces the canonical history at levels 0..3; workload biased to register pressure (stack temporaries) and wide constants.",
         "as C01; machine code is executed natively, not emulated; instruction-selector arms that no generated program reaches are reported in evidence reach counters, not claimed"),
 "C04": ("exploration", "3+5.C04", "reactive peer and EOF position; faults off",
         "In-place interpreter against the independent reference model R0/R1 (shares no code with hpbf) on all widths.",
         "reference model correctness (R1 cross-checked against R0 by `sim selftest`)"),
 "C05": ("exploration", "3+5.C05", "budget ladder as pre-emption, output sink closing at output N as the observation point of a run that never returns",
         "For programs whose canonical run provably repeats a machine state: execute_limited never reports finished at any rung of a budget ladder and its history is a prefix of (silent divergence: eventually all of) the canonical one; with a sink that closes at output N the unbounded run produces exactly the canonical events up to N. Halting programs must finish (shared with C01-C04).",
         "divergence of the reference is a proof (exact state recurrence with no live input in between), never a timeout; the unbounded entry point is observed through closing sinks only; margin 16x between canonical steps and budget"),
 "C06": ("exploration", "3.4+5.C06", "allocator placement: every heap block made during execution flush against a PROT_NONE page on the side a coin decides, canaries in slack, poison in fresh memory, freed pages re-protected or handed back at the same address; random legal pre-growth; register junk",
         "No backend touches a byte outside a block it owns (SIGSEGV with the faulting address classified against the block table, canaries checked at free) and the history equals the canonical one across any number of reallocations in both directions.",
         "guard granularity is the block's own alignment (<=7 bytes of slack are covered by canaries, which detect writes but not reads); excursions <= ~6e3 cells"),
 "C07": ("exploration", "5.C07", "budget = pre-emption point: 0..3, random small, geometric ladder to 2^20, exact neighbourhood of the canonical back-edge count, 2^62 and 2^63-1; both build profiles",
         "finished => history equals the complete canonical one; interrupted => prefix; halting program with effectively unlimited budget => finished; provably divergent program => never finished. Every call with budget <= 2^20 returns (hang backstop).",
         "'returns in time bounded by the budget' is decided only as 'returns'; proportionality is a performance statement"),
 "C08": ("fault_enumeration", "3.3+5.C08", "EVERY single I/O fault position of the canonical history when it has <= 256 events: each input request failing (5 error kinds incl. Interrupted/WouldBlock), each output refused as Ok(0) and as Err, reader absent, writer absent",
         "Under each single fault every backend stops at that operation: events before equal the canonical ones, the faulting call is the last event, the entry point returns Ok, nothing panics or crashes.",
         "single faults only (a stream that failed once keeps failing); llvmjit.rs cannot be built here"),
 "C10": ("exploration", "5.C10", "PROT_NONE pages on BOTH ends of the pre-allocated region (region rounded to whole pages), placement coin, register junk",
         "execute_unsafe on bcint and basejit at levels 0..3 inside a region with margin program-length+1 produces the canonical history, touches no byte outside the region and never replaces the tape block.",
         "excursion known from the reference model; region sizes <= a few thousand cells (the CLI's 2^29-cell region is C16's business)"),
 "C17": ("fault_enumeration", "3.4+5.C17", "the k-th allocation request made during execution returns null, for EVERY k up to the number of requests of the fault-free run (sampled above 24), in a forked child; requests no allocator can serve (2^44..2^62 cells away) through the tape API and through each executor, with the panic caught and the context dropped",
         "After a failed allocation the process ends by the allocation-failure abort (SIGABRT) or a panic; SIGSEGV/SIGBUS, a normal return, or any continuation is a violation.",
         "requests made by Vec inside hpbf are included; compile-time allocations (Executor::create) are outside the zone; a refusal by the system itself (address-space limit under --static) is injected in C16's process scenarios"),
 "C09": ("exploration", "5.C09", "call history x allocator placement (guard page on a coin-decided side), poison in fresh memory, same-address reuse after free; far excursions of 2^31..2^63 cells",
         "Every read returns the value last written to that logical cell (0 if never), reads and bounds queries never allocate, a requested non-empty range is accessible afterwards at both ends, set_current_ptr/current_ptr and check_ptr agree with mov/check, contents survive growth in both directions; final sweep over every cell ever written +-3.",
         "writes and accessibility requests within +-1.6e7 cells of the origin (ranges up to ~1e6 cells); reads, bounds queries and moves anywhere in the 64-bit index space"),
 "C11": ("exploration", "2.C+5.C11", "runtime call with full ABI clobber assumed at EVERY non-branch instruction (checked bytecode machine): every register temporary not declared live across it is destroyed",
         "Structural invariants are checked exactly on every instruction of the generated bytecode (branch targets, operands inside the access window containing 0, temporary indices, no read-and-clear operand without fusion, no leftover no-op); 'no temporary read before written / needed-after implies declared-live' is decided on EXECUTED paths only (3 peers per program), which is weaker than the all-paths statement.",
         "the checked machine is a stub executor written from bc.rs's instruction semantics; paths no peer drives are not judged"),
 "C13": ("exploration", "5.C13", "hash seeds of the bytecode generator's containers (hook H1), compile history on the same thread, process and build profile, repeated execute at two budgets; growth pairs (the same construction at size parameter k and 2k)",
         "All four executors (and the 4 machine-code variants) build without panic in both profiles; printed IR, both bytecode settings and machine code are identical under 4 hash seeds with unrelated compilations in between, and identical (IR/bytecode digests) across processes and build profiles; three executions of one executor on fresh contexts give identical histories; allocator traffic of compilation stays below 1e7 requests / 2^28 bytes for sources <= 2 kB.",
         "'no super-polynomial blow-up' is decided as a fixed bound on a deterministic cost measure (allocator traffic) for the generated sizes (nesting <= 300) and as a ratio <= 32 between size parameters k and 2k for eight parametric constructions, not as an asymptotic statement"),
 "C16": ("exploration", "5.C16", "process environment of the real binary: argv order and repeats, files that exist / are missing / are directories / are not UTF-8 / are empty / are named pipes / hold a multi-byte character on a block boundary or split over two files, stdin contents and end, trailing -f, non-numeric and repeated --limit, address-space limit under --static",
         "stdout equals the canonical output of the concatenated code under the resolved width/backend/level (defaults observed through width-revealing programs, --print-ir at default level, and budget-revealing --limit runs compared with the library); exit status 0 / 1 with diagnostic; print options equal the library's rendering and leave the stdin offset at 0.",
         "the OS is real, not simulated; --time output is stripped; the size of the --static window is not judged (no property states it); machine-code print is only checked for non-emptiness"),
 "C18": ("exploration", "5.C18", "operation history incl. the abandonment point of by-value iteration and a predicate that panics at its k-th call; element types with a destructor and a global drop ledger, with a value that is not equal to itself, and of size zero",
         "Slice view equals a Vec model after every operation for inline capacities 1 and 2; ==, cmp, hash, index, iteration agree with the model; at the end every created element has been dropped exactly once (0 = leak, >1 = double drop, unknown id = drop of an uninitialised slot).",
         "/repo/src/smallvec.rs and /repo/src/hasher.rs are compiled into the harness by path (crate-private); after a panicking predicate only 'never dropped twice, nothing dead visible' is demanded (the inline code leaks there by design)"),
}
EXTRA = {k: v[2] for k, v in CHECKS.items()}

NOT_APPLICABLE = [
 ("C12", "pure function of the source string (acceptance, error kind/position, comment-insensitivity); no schedule, clock, fault, allocator or history for a simulator to own - deciding it would be input generation in simulator vocabulary (DESIGN.md 2.D)"),
 ("C14", "pure arithmetic on two integers at a fixed width; nothing environment-decided (DESIGN.md 2.D)"),
 ("C15", "pure algebra on expression values built through the API, fixed-seed hash maps; nothing environment-decided (DESIGN.md 2.D)"),
]
PENDING = [
 ("C09", "check not built yet in this revision (planned: tape-API histories under the guard allocator, DESIGN.md 5.C09)"),
 ("C11", "check not built yet in this revision (planned: checked bytecode machine, DESIGN.md 5.C11)"),
 ("C13", "check not built yet in this revision (planned: hash-seed and history independence, DESIGN.md 5.C13)"),
 ("C16", "check not built yet in this revision (planned: process-level CLI simulation, DESIGN.md 5.C16)"),
 ("C18", "check not built yet in this revision (planned: SmallVec histories with drop ledger, DESIGN.md 5.C18)"),
]

def main():
    import os
    built = set(CHECKS)
    checks = []
    for pid in sorted(CHECKS):
        level, ref, extra, text, note = CHECKS[pid]
        checks.append({
            "property_id": pid,
            "quick_cmd": f"./check {pid} quick",
            "thorough_cmd": f"./check {pid} thorough",
            "evidence_file": f"/verif/evidence/{pid}.json",
            "replay_cmd_template": "./check replay {path}",
            "engine": "sim",
            "level_claimed": {"category": level, "text": text, "design_ref": "DESIGN.md section " + ref},
            "level_note": note,
            "technique": TECH.format(extra=extra),
        })
    na = [{"property_id": p, "reason": r} for p, r in NOT_APPLICABLE]
    na += [{"property_id": p, "reason": r} for p, r in PENDING if p not in built]
    m = {
        "version": 1,
        "setup_cmd": "./check build",
        "hooks": {
            "guard": "--cfg hpbf_verif (rustc cfg, set in /verif/sim/.cargo/config.toml; /repo's Cargo.toml is untouched)",
            "enable": "checks compile /repo/src through the shadow manifest /verif/sim/hpbf/Cargo.toml ([lib] path=/repo/src/lib.rs) with RUSTFLAGS=--cfg hpbf_verif",
            "baseline_off_cmd": "cd /repo && cargo test --workspace --no-fail-fast --offline",
            "source_commits": repo_commits("verif-hook:"),
            "add_only": True,
        },
        "engines": [{
            "name": "sim",
            "path": "/verif/sim",
            "serves_properties": sorted(built),
            "kind_free_text": "deterministic simulator: one PRNG value decides workload, peer behaviour, fault plan, allocator plan and budgets; worker processes keyed by run index; reference-model oracles; delta-debugging minimiser; self-contained replay files",
        }],
        "checks": checks,
        "not_applicable": na,
        "notes": "Genuine defects found and repaired in /repo as 'fix:' commits are listed in /verif/known-findings.txt (kind=fixed; they suppress nothing) and their minimised cases are replayed by every run from /verif/regress/<ID>/. See DESIGN.md.",
    }
    json.dump(m, open("/verif/MANIFEST.json", "w"), indent=1)
    print("wrote MANIFEST.json with", len(checks), "checks;", len(na), "not applicable")

if __name__ == "__main__":
    main()
