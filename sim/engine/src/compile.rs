//! C13: compilation is total, deterministic (hash seeds, compile history, process,
//! build profile) and leaves executors reusable.

use std::panic::{catch_unwind, AssertUnwindSafe};

use hpbf::exec::{BcInterpreter, Executable, Executor, InplaceInterpreter, IrInterpreter};
#[cfg(not(miri))]
use hpbf::exec::BaseJitCompiler;
use hpbf::runtime::Context;
use hpbf::{bc, ir, CellType};
use serde_json::{json, Value};

use crate::check::Verdict;
use crate::galloc;
use crate::gen;
use crate::peer::{Ev, Fault, Peer, SimIn, SimOut, World};
use crate::rng::{fnv, Rng};

#[derive(Clone, Debug, PartialEq)]
pub struct CompileCheck {
    pub prop: String,
    pub program: String,
    pub width: u32,
    pub level: u32,
    pub hash_seeds: Vec<u64>,
    /// unrelated programs compiled first on the same thread ("what was compiled before")
    pub history: Vec<String>,
    pub peer: Peer,
    /// `program` is a construction with size parameter 2k; this is the same construction at k
    pub half: Option<String>,
}

impl CompileCheck {
    pub fn to_json(&self) -> Value {
        json!({
            "property": self.prop,
            "kind": "compile",
            "program": self.program,
            "width": self.width,
            "level": self.level,
            "hash_seeds": self.hash_seeds,
            "history": self.history,
            "peer": self.peer.to_json(),
            "half": self.half,
        })
    }

    pub fn from_json(v: &Value) -> Option<CompileCheck> {
        Some(CompileCheck {
            prop: v.get("property")?.as_str()?.to_string(),
            program: v.get("program")?.as_str()?.to_string(),
            width: v.get("width")?.as_u64()? as u32,
            level: v.get("level")?.as_u64()? as u32,
            hash_seeds: v.get("hash_seeds")?.as_array()?.iter().filter_map(|x| x.as_u64()).collect(),
            history: v.get("history")?.as_array()?.iter().filter_map(|x| x.as_str().map(|s| s.to_string())).collect(),
            peer: Peer::from_json(v.get("peer")?)?,
            half: v.get("half").and_then(|x| x.as_str()).map(|x| x.to_string()),
        })
    }

    pub fn size(&self) -> usize {
        self.program.len() * 100 + self.history.iter().map(|h| 50 + h.len()).sum::<usize>() + self.hash_seeds.len() * 10 + self.level as usize + self.peer.script.len()
    }

    pub fn shrink_candidates(&self) -> Vec<CompileCheck> {
        let mut out = Vec::new();
        if !self.history.is_empty() {
            let mut n = self.clone();
            n.history.clear();
            out.push(n);
            let mut n = self.clone();
            n.history.pop();
            out.push(n);
        }
        if self.hash_seeds.len() > 2 {
            let mut n = self.clone();
            n.hash_seeds.pop();
            out.push(n);
        }
        if self.half.is_some() {
            // a growth pair is only meaningful as generated
            return out;
        }
        // unwrap loops
        let prog: Vec<char> = self.program.chars().collect();
        let mut stack = Vec::new();
        for (i, &ch) in prog.iter().enumerate() {
            if ch == '[' {
                stack.push(i);
            } else if ch == ']' {
                if let Some(j) = stack.pop() {
                    let mut n = self.clone();
                    n.program = prog.iter().enumerate().filter(|(k, _)| *k != i && *k != j).map(|(_, c)| *c).collect();
                    out.push(n);
                }
            }
        }
        if !self.peer.script.is_empty() {
            let mut n = self.clone();
            n.peer.script.clear();
            out.push(n);
        }
        if self.level > 1 {
            let mut n = self.clone();
            n.level -= 1;
            out.push(n);
        }
        if self.width != 8 {
            let mut n = self.clone();
            n.width = 8;
            out.push(n);
        }
        out
    }

    pub fn remove_primary(&self, start: usize, len: usize) -> Option<CompileCheck> {
        if self.half.is_some() {
            return None;
        }
        let chars: Vec<char> = self.program.chars().collect();
        if start >= chars.len() {
            return None;
        }
        let end = (start + len).min(chars.len());
        let cand: String = chars[..start].iter().chain(chars[end..].iter()).collect();
        if !gen::balanced(&cand) {
            return None;
        }
        let mut n = self.clone();
        n.program = cand;
        Some(n)
    }
}

struct Artefacts {
    ir: String,
    bc2: String,
    bc11: String,
    mc: Vec<u8>,
}

fn panic_text(e: Box<dyn std::any::Any + Send>) -> String {
    let m = if let Some(s) = e.downcast_ref::<&str>() {
        s.to_string()
    } else if let Some(s) = e.downcast_ref::<String>() {
        s.clone()
    } else {
        "<non-string panic>".to_string()
    };
    format!("{} @ {}", m, crate::worker::last_panic_location())
}

fn build<C: CellType>(code: &str, level: u32) -> Result<Artefacts, String> {
    catch_unwind(AssertUnwindSafe(|| {
        let p = ir::Program::<C>::parse(code).map_err(|e| format!("parse error {:?}", e.kind))?.optimize(level);
        let ir = format!("{:?}", p);
        let bc2 = format!("{:?}", bc::CodeGen::translate(&p, 2, true));
        let bc11 = format!("{:?}", bc::CodeGen::translate(&p, 11, false));
        #[cfg(not(miri))]
        let mc = {
            let j = BaseJitCompiler::<C>::create(code, level).map_err(|e| format!("jit create error {:?}", e.kind))?;
            let mut all = j.print_mc(false, true);
            all.extend(j.print_mc(true, true));
            all.extend(j.print_mc(false, false));
            all.extend(j.print_mc(true, false));
            all
        };
        #[cfg(miri)]
        let mc = Vec::new();
        Ok(Artefacts { ir, bc2, bc11, mc })
    }))
    .unwrap_or_else(|e| Err(format!("PANIC {}", panic_text(e))))
}

fn run_three<C: CellType, E: Executable<C>>(exec: &E, peer: &Peer, budget: Option<u64>) -> Result<Vec<(Vec<Ev>, bool)>, String> {
    let mut res = Vec::new();
    for _ in 0..3 {
        let mut world = World::new(peer.clone(), Fault::None, 4096, 1);
        let wp: *mut World = &mut world;
        let r = catch_unwind(AssertUnwindSafe(|| {
            let mut ctx = Context::<C>::new(Some(Box::new(SimIn { world: wp })), Some(Box::new(SimOut { world: wp })));
            match budget {
                Some(b) => {
                    ctx.budget = b as usize;
                    exec.execute_limited(&mut ctx).unwrap_or(false)
                }
                None => exec.execute(&mut ctx).is_ok(),
            }
        }));
        match r {
            Ok(f) => res.push((std::mem::take(&mut world.events), f)),
            Err(e) => return Err(format!("PANIC {}", panic_text(e))),
        }
    }
    Ok(res)
}

fn eval_typed<C: CellType>(c: &CompileCheck, v: &mut Verdict) {
    // 1. totality of every executor's create (+ the four machine-code variants inside build)
    macro_rules! total {
        ($t:ty, $name:expr) => {
            match catch_unwind(AssertUnwindSafe(|| <$t>::create(&c.program, c.level).map(|_| ()))) {
                Ok(Ok(())) => {}
                Ok(Err(e)) => {
                    v.fail("create-error", 0, format!("{}::create returned Err({:?}) for a balanced program", $name, e.kind));
                    return;
                }
                Err(e) => {
                    v.fail("create-panic", 0, format!("{}::create panicked: {}", $name, panic_text(e)));
                    return;
                }
            }
        };
    }
    // deterministic cost measure of compilation: allocator traffic
    galloc::count_begin();
    total!(InplaceInterpreter<C>, "InplaceInterpreter");
    total!(IrInterpreter<C>, "IrInterpreter");
    total!(BcInterpreter<C>, "BcInterpreter");
    #[cfg(not(miri))]
    total!(BaseJitCompiler<C>, "BaseJitCompiler");
    let (reqs, bytes) = galloc::count_end();
    v.add("create_alloc_requests", reqs);
    v.add("create_alloc_bytes", bytes);
    if c.program.len() <= 2048 && (bytes > (1 << 28) || reqs > 10_000_000) {
        v.fail(
            "compile-blow-up",
            0,
            format!("building the four executors for a {}-byte source made {} allocation requests for {} bytes (bounds: 1e7 requests, 2^28 bytes)", c.program.len(), reqs, bytes),
        );
        return;
    }
    // growth: the same construction at half the size parameter must not be cheaper by more
    // than a polynomial factor (source length is linear in the parameter; a factor of 32 per
    // doubling allows degree 5, an exponential cost doubles its *exponent*)
    if let Some(h) = &c.half {
        galloc::count_begin();
        let built = catch_unwind(AssertUnwindSafe(|| {
            let _ = InplaceInterpreter::<C>::create(h, c.level);
            let _ = IrInterpreter::<C>::create(h, c.level);
            let _ = BcInterpreter::<C>::create(h, c.level);
            #[cfg(not(miri))]
            let _ = BaseJitCompiler::<C>::create(h, c.level);
        }));
        let (_, half_bytes) = galloc::count_end();
        if built.is_ok() {
            v.add("growth_pairs_compared", 1);
            let ratio_x100 = bytes.saturating_mul(100) / half_bytes.max(1);
            let bucket = [200u64, 300, 400, 800, 1600, 3200].iter().find(|&&b| ratio_x100 <= b).map(|b| format!("growth_cost_ratio_le_{}", b / 100)).unwrap_or_else(|| "growth_cost_ratio_gt_32".into());
            v.add(&bucket, 1);
            if bytes > half_bytes.saturating_mul(32).saturating_add(1 << 20) {
                v.fail(
                    "compile-growth",
                    0,
                    format!(
                        "doubling the size parameter of a construction ({} -> {} source bytes) multiplies the allocator traffic of building the four executors by {}.{:02} ({} -> {} bytes): more than polynomial",
                        h.len(), c.program.len(), ratio_x100 / 100, ratio_x100 % 100, half_bytes, bytes
                    ),
                );
                return;
            }
        }
    }
    // 2./3. artefacts under different hash seeds and compile histories
    let mut arts: Vec<(String, Artefacts)> = Vec::new();
    for (i, &s) in c.hash_seeds.iter().enumerate() {
        crate::exec::set_hash_seed(s);
        if i == 1 {
            // "what was compiled before" on this thread
            for h in &c.history {
                let _ = build::<C>(h, c.level);
            }
        }
        match build::<C>(&c.program, c.level) {
            Ok(a) => arts.push((format!("hash seed {:#x}{}", s, if i >= 1 && !c.history.is_empty() { " after compiling other programs" } else { "" }), a)),
            Err(e) => {
                v.fail(if e.starts_with("PANIC") { "create-panic" } else { "create-error" }, 0, format!("under hash seed {:#x}: {}", s, e));
                return;
            }
        }
    }
    for w in arts.windows(2) {
        let (la, a) = &w[0];
        let (lb, b) = &w[1];
        let which = if a.ir != b.ir {
            Some("printed IR")
        } else if a.bc2 != b.bc2 {
            Some("bytecode (2 registers, fusion)")
        } else if a.bc11 != b.bc11 {
            Some("bytecode (11 registers)")
        } else if a.mc != b.mc {
            Some("machine code")
        } else {
            None
        };
        if let Some(wh) = which {
            v.fail("nondeterministic-artefact", 0, format!("{} differs between [{}] and [{}]", wh, la, lb));
            return;
        }
    }
    if let Some((_, a)) = arts.first() {
        // digest of the process-independent artefacts, compared across processes/profiles by the parent
        v.artefact = Some(format!("{:016x}", fnv(a.ir.as_bytes()) ^ fnv(a.bc2.as_bytes()).rotate_left(1) ^ fnv(a.bc11.as_bytes()).rotate_left(2)));
    }
    // 4. reusability: the same executor three times on fresh contexts
    macro_rules! reuse {
        ($t:ty, $name:expr) => {
            if let Ok(exec) = <$t>::create(&c.program, c.level) {
                for budget in [Some(5_000u64), Some(3)] {
                    match run_three::<C, _>(&exec, &c.peer, budget) {
                        Ok(r) => {
                            v.executions += 3;
                            if r[0] != r[1] || r[1] != r[2] {
                                let k = if r[0] != r[1] { 1 } else { 2 };
                                v.fail(
                                    "not-reusable",
                                    0,
                                    format!(
                                        "{}: execution #{} of the same executor on a fresh context differs from execution #0 ({} events finished={} vs {} events finished={})",
                                        $name, k, r[k].0.len(), r[k].1, r[0].0.len(), r[0].1
                                    ),
                                );
                                return;
                            }
                        }
                        Err(e) => {
                            v.fail("panic", 0, format!("{}: {}", $name, e));
                            return;
                        }
                    }
                }
            }
        };
    }
    let halts_quickly = {
        let r = crate::refmodel::run(&c.program, c.width, &c.peer, crate::refmodel::Limits { max_steps: 20_000, max_events: 4000, min_events_on_cycle: 0, accelerate: false, mute_output: false });
        r.status == crate::refmodel::Status::Halted
    };
    // 5. an executor's behaviour must not depend on what was asked of the same object before
    macro_rules! order {
        ($t:ty, $name:expr) => {
            if let (Ok(fresh), Ok(used)) = (<$t>::create(&c.program, c.level), <$t>::create(&c.program, c.level)) {
                let one = |e: &$t, b: Option<u64>| run_three::<C, _>(e, &c.peer, b).map(|mut r| r.remove(0));
                // `used` first runs in another mode, then both are asked the same thing
                let warm = if halts_quickly { one(&used, None).map(|_| ()) } else { one(&used, Some(7)).map(|_| ()) };
                if warm.is_ok() {
                    if let (Ok(a), Ok(b)) = (one(&fresh, Some(5_000)), one(&used, Some(5_000))) {
                        v.executions += 5;
                        if a != b {
                            v.fail(
                                "not-reusable",
                                0,
                                format!(
                                    "{}: execute_limited(5000) on a fresh executor gives {} events finished={}, on an executor that was run in another mode before {} events finished={}",
                                    $name, a.0.len(), a.1, b.0.len(), b.1
                                ),
                            );
                            return;
                        }
                    }
                }
            }
        };
    }
    order!(InplaceInterpreter<C>, "InplaceInterpreter");
    order!(IrInterpreter<C>, "IrInterpreter");
    order!(BcInterpreter<C>, "BcInterpreter");
    #[cfg(not(miri))]
    {
        order!(BaseJitCompiler<C>, "BaseJitCompiler");
        // machine code of one variant must not depend on which variant was requested first
        if let (Ok(j1), Ok(j2)) = (BaseJitCompiler::<C>::create(&c.program, c.level), BaseJitCompiler::<C>::create(&c.program, c.level)) {
            let a = j1.print_mc(true, true);
            let _ = j2.print_mc(false, false);
            let _ = j2.print_mc(false, true);
            let b = j2.print_mc(true, true);
            if a != b {
                v.fail("not-reusable", 0, "BaseJitCompiler::print_mc(limited, safe) differs between a fresh compiler and one that printed other variants first".into());
                return;
            }
        }
    }
    reuse!(InplaceInterpreter<C>, "InplaceInterpreter");
    reuse!(IrInterpreter<C>, "IrInterpreter");
    reuse!(BcInterpreter<C>, "BcInterpreter");
    #[cfg(not(miri))]
    reuse!(BaseJitCompiler<C>, "BaseJitCompiler");
}

pub fn evaluate(c: &CompileCheck) -> Verdict {
    let mut v = Verdict::default();
    match c.width {
        8 => eval_typed::<u8>(c, &mut v),
        16 => eval_typed::<u16>(c, &mut v),
        32 => eval_typed::<u32>(c, &mut v),
        _ => eval_typed::<u64>(c, &mut v),
    }
    v.nontrivial = c.program.contains('[') && c.program.len() >= 8;
    v
}

pub fn generate(rng: &mut Rng, prop: &str, corpus: &[String]) -> CompileCheck {
    let width = *rng.pick(&crate::props::WIDTHS);
    let program = match rng.below(14) {
        10 | 11 => gen::program(rng, gen::Family::IoPressure, width, corpus, false),
        12 => gen::program(rng, gen::Family::Idioms, width, corpus, false),
        13 => gen::program(rng, gen::Family::Brackets, width, corpus, false),
        0 | 1 => gen::explosive_w(rng, width),
        2 => gen::deep_nesting(rng),
        3 => gen::program(rng, gen::Family::Pressure, width, corpus, false),
        4 | 5 => gen::program(rng, gen::Family::Raw, width, corpus, false),
        6 => gen::program(rng, gen::Family::Corpus, width, corpus, false),
        _ => gen::program(rng, gen::Family::Structured, width, corpus, false),
    };
    let (program, half) = if rng.chance(1, 6) {
        let (h, f, _) = gen::growth_pair(rng);
        (f, Some(h))
    } else {
        (program, None)
    };
    let nh = rng.urange(0, 3);
    let history = (0..nh).map(|_| gen::program(rng, gen::Family::Raw, width, corpus, false)).collect();
    CompileCheck {
        prop: prop.to_string(),
        program,
        width,
        level: *rng.pick(&[0u32, 1, 1, 2, 2, 3, 3, 3, 4]),
        hash_seeds: (0..4).map(|_| rng.next()).collect(),
        history,
        peer: Peer::generate(rng),
        half,
    }
}
