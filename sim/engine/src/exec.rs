//! Runs one `Case` against the real hpbf code and records what happened.

use std::panic::{catch_unwind, AssertUnwindSafe};

use hpbf::exec::{BcInterpreter, Executable, Executor, InplaceInterpreter, IrInterpreter};
#[cfg(not(miri))]
use hpbf::exec::BaseJitCompiler;
use hpbf::runtime::Context;
use hpbf::CellType;

use crate::case::{Backend, Case, Mode};
use crate::galloc;
use crate::peer::{Ev, Fault, SimIn, SimOut, World};

#[derive(Clone, Debug, PartialEq)]
pub enum ExecResult {
    /// The entry point returned `Ok`; for limited mode the flag it returned, else `true`.
    Returned(bool),
    /// The entry point returned `Err(kind)`.
    Error(String),
    /// `Executor::create` returned `Err(kind, position)`.
    CreateError(String, usize),
    CreatePanic(String),
    Panic(String),
}

#[derive(Clone, Debug)]
pub struct Outcome {
    pub result: ExecResult,
    pub events: Vec<Ev>,
    pub overflow: bool,
    pub fault_fired: bool,
    pub odd_calls: u32,
    pub budget_left: u64,
    pub alloc: galloc::Stats,
    /// (user address, size, freed) of every in-zone block in request order
    pub blocks: Vec<(usize, usize, bool)>,
    /// address and size in bytes of the tape block right after pre-growth
    pub pregrown_tape: Option<(usize, usize)>,
    /// was that very block still the live tape block when the entry point returned?
    /// (only known under the guard allocator)
    pub pregrown_survived: Option<bool>,
}

pub struct RunInfo {
    result: ExecResult,
    budget_left: u64,
    pregrown: Option<(usize, usize)>,
    survived: Option<bool>,
}

impl RunInfo {
    fn early(result: ExecResult) -> RunInfo {
        RunInfo { result, budget_left: 0, pregrown: None, survived: None }
    }
}

fn panic_msg(e: Box<dyn std::any::Any + Send>) -> String {
    if let Some(s) = e.downcast_ref::<&str>() {
        s.to_string()
    } else if let Some(s) = e.downcast_ref::<String>() {
        s.clone()
    } else {
        "<non-string panic>".to_string()
    }
}

pub fn set_hash_seed(_seed: u64) {
    #[cfg(hpbf_verif)]
    hpbf::verif::set_hash_seed(_seed);
}

fn run_exec<C: CellType, E: Executable<C>>(case: &Case, world: *mut World, exec: &E) -> RunInfo {
    let input: Option<Box<dyn std::io::Read>> =
        if case.fault == Fault::NoReader { None } else { Some(Box::new(SimIn { world })) };
    let output: Option<Box<dyn std::io::Write>> =
        if case.fault == Fault::NoWriter { None } else { Some(Box::new(SimOut { world })) };
    let mut ctx = Context::<C>::new(input, output);
    // the zone covers execution only: compilation is C13's business, and the boxes
    // above belong to the harness
    if case.alloc.guard {
        galloc::zone_enter(case.alloc.seed, case.alloc.reuse, case.alloc.fail_at);
    }
    let mut pregrown = None;
    if let Some((a, b)) = case.pregrow {
        ctx.memory.make_accessible(-(a as isize), b as isize);
        let base = ctx.memory.current_ptr() as usize - (a as usize) * (C::BITS as usize / 8);
        pregrown = Some((base, ((a + b) as usize) * (C::BITS as usize / 8)));
    }
    if let Some(d) = case.far_move {
        ctx.memory.mov(d as isize);
    }
    // E11: what the stack below this frame holds is whatever earlier calls left there (time
    // stamps, pointers, lengths). Code that reads a stack slot before writing it therefore
    // behaves differently from run to run; with the junk pattern there it misbehaves every time.
    #[cfg(not(miri))]
    poison_stack(case.junk | 0x8000_0000_0000_0001);
    let r = catch_unwind(AssertUnwindSafe(|| match case.mode {
        Mode::Execute => exec.execute(&mut ctx).map(|_| true),
        Mode::Limited(b) => {
            ctx.budget = b as usize;
            exec.execute_limited(&mut ctx)
        }
        Mode::Unsafe => unsafe { exec.execute_unsafe(&mut ctx).map(|_| true) },
    }));
    if r.is_err() {
        // (a death from here on is not the allocation-failure abort)
        #[cfg(not(miri))]
        crate::isolate::mark_panic_caught();
    }
    let budget_left = ctx.budget as u64;
    let survived = match pregrown {
        Some((base, _)) if case.alloc.guard && base >= galloc::ARENA_BASE && base < galloc::ARENA_BASE + galloc::ARENA_SIZE => {
            Some(galloc::all_blocks().iter().any(|&(u, _, freed)| u == base && !freed))
        }
        _ => None,
    };
    let res = match r {
        Ok(Ok(f)) => ExecResult::Returned(f),
        Ok(Err(e)) => ExecResult::Error(format!("{:?}", e.kind)),
        Err(p) => ExecResult::Panic(galloc::suspend(|| panic_msg(p))),
    };
    drop(ctx);
    if case.alloc.guard {
        galloc::zone_exit();
    }
    RunInfo { result: res, budget_left, pregrown, survived }
}

/// Fill 64 KiB of stack below the caller's frame with `pattern`.
#[cfg(not(miri))]
#[inline(never)]
fn poison_stack(pattern: u64) {
    let mut buf = [0u64; 8192];
    for x in buf.iter_mut() {
        // Safety: plain volatile stores into a local array (kept by the compiler that way)
        unsafe { std::ptr::write_volatile(x, pattern) };
    }
    std::hint::black_box(&buf);
}

fn run_typed<C: CellType>(case: &Case, world: *mut World) -> RunInfo {
    macro_rules! go {
        ($t:ty) => {{
            match catch_unwind(AssertUnwindSafe(|| <$t>::create(&case.program, case.level))) {
                Ok(Ok(exec)) => {
                    let r = run_exec::<C, _>(case, world, &exec);
                    drop(exec);
                    r
                }
                Ok(Err(e)) => RunInfo::early(ExecResult::CreateError(format!("{:?}", e.kind), e.position)),
                Err(p) => RunInfo::early(ExecResult::CreatePanic(galloc::suspend(|| panic_msg(p)))),
            }
        }};
    }
    match case.backend {
        Backend::Inplace => go!(InplaceInterpreter<C>),
        Backend::IrInt => go!(IrInterpreter<C>),
        Backend::BcInt => go!(BcInterpreter<C>),
        #[cfg(not(miri))]
        Backend::BaseJit => go!(BaseJitCompiler<C>),
        #[cfg(miri)]
        Backend::BaseJit => RunInfo::early(ExecResult::Error("basejit unavailable under miri".into())),
    }
}

/// Execute the case in this process. A crash kills the process: callers that expect
/// one isolate with `fork` (see `isolate.rs`) or rely on the worker protocol.
pub fn execute(case: &Case) -> Outcome {
    let mut world = World::new(case.peer.clone(), case.fault, case.max_events, case.junk);
    let wp: *mut World = &mut world;
    set_hash_seed(case.hash_seed);
    if case.alloc.guard {
        galloc::reset();
    }
    let info = match case.width {
        8 => run_typed::<u8>(case, wp),
        16 => run_typed::<u16>(case, wp),
        32 => run_typed::<u32>(case, wp),
        _ => run_typed::<u64>(case, wp),
    };
    let (alloc, blocks) = if case.alloc.guard {
        (galloc::stats(), galloc::all_blocks())
    } else {
        (galloc::Stats::default(), Vec::new())
    };
    Outcome {
        result: info.result,
        events: std::mem::take(&mut world.events),
        overflow: world.overflow,
        fault_fired: world.fault_fired,
        odd_calls: world.odd_calls,
        budget_left: info.budget_left,
        alloc,
        blocks,
        pregrown_tape: info.pregrown,
        pregrown_survived: info.survived,
    }
}
