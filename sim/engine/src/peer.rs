//! The simulated environment on the I/O side (E1, E2, E3 of DESIGN.md): a reactive
//! peer that answers one-byte input requests as a pure function of the history so
//! far, a sink that accepts or refuses single bytes, and one shared event log.

use std::io::{self, Read, Write};

use serde_json::{json, Value};

use crate::rng::Rng;

/// One observable event. The log of these is "the history".
#[derive(Clone, Copy, PartialEq, Eq, Debug)]
pub enum Ev {
    /// A one-byte input request and what the peer answered; `None` = end of input.
    In(Option<u8>),
    /// One byte accepted by the sink.
    Out(u8),
    /// An input request answered with an I/O error (fault injection only).
    InErr,
    /// An output byte the sink refused (`Ok(0)` or `Err`), fault injection only.
    OutRefused(u8),
}

impl Ev {
    pub fn show(&self) -> String {
        match self {
            Ev::In(Some(b)) => format!("i{:02x}", b),
            Ev::In(None) => "iEOF".to_string(),
            Ev::Out(b) => format!("o{:02x}", b),
            Ev::InErr => "iERR".to_string(),
            Ev::OutRefused(b) => format!("oREFUSED{:02x}", b),
        }
    }
}

pub fn show_events(evs: &[Ev], max: usize) -> String {
    let mut s = String::new();
    for (i, e) in evs.iter().enumerate() {
        if i >= max {
            s.push_str(&format!(" …(+{})", evs.len() - max));
            break;
        }
        if i > 0 {
            s.push(' ');
        }
        s.push_str(&e.show());
    }
    s
}

/// The peer: a script of base bytes, optionally perturbed by what it has seen on
/// the output side. End of input is sticky.
#[derive(Clone, Debug, PartialEq)]
pub struct Peer {
    pub script: Vec<u8>,
    /// response += react_n * (number of outputs seen so far)
    pub react_n: u8,
    /// response += react_l * (last output byte seen, 0 if none)
    pub react_l: u8,
    /// response &= mask (keeps input-controlled loops short)
    pub mask: u8,
}

impl Peer {
    pub fn respond(&self, req: usize, n_out: u64, last_out: u8) -> Option<u8> {
        let base = *self.script.get(req)?;
        let v = (base as u64)
            .wrapping_add((self.react_n as u64).wrapping_mul(n_out))
            .wrapping_add((self.react_l as u64).wrapping_mul(last_out as u64));
        Some((v as u8) & self.mask)
    }

    pub fn generate(rng: &mut Rng) -> Peer {
        let len = match rng.below(10) {
            0 => 0,
            1 => 1,
            2..=6 => rng.urange(2, 8),
            _ => rng.urange(8, 24),
        };
        let mask = *rng.pick(&[0x01u8, 0x03, 0x03, 0x07, 0x0f, 0xff, 0xff]);
        let mut script = Vec::with_capacity(len);
        for _ in 0..len {
            let b = match rng.below(8) {
                0 => 0,
                1 => 1,
                2 => 2,
                3 => 255,
                4 => rng.below(8) as u8,
                _ => rng.below(256) as u8,
            };
            script.push(b);
        }
        let (react_n, react_l) = match rng.below(4) {
            0 => (0, 0),
            1 => (1, 0),
            2 => (0, 1),
            _ => (rng.below(4) as u8, rng.below(4) as u8),
        };
        Peer { script, react_n, react_l, mask }
    }

    pub fn to_json(&self) -> Value {
        json!({"script": self.script, "react_n": self.react_n, "react_l": self.react_l, "mask": self.mask})
    }

    pub fn from_json(v: &Value) -> Option<Peer> {
        Some(Peer {
            script: v.get("script")?.as_array()?.iter().map(|x| x.as_u64().unwrap_or(0) as u8).collect(),
            react_n: v.get("react_n")?.as_u64()? as u8,
            react_l: v.get("react_l")?.as_u64()? as u8,
            mask: v.get("mask")?.as_u64()? as u8,
        })
    }
}

/// A single I/O fault (or the absence of an endpoint).
#[derive(Clone, Copy, Debug, PartialEq, Eq)]
pub enum Fault {
    None,
    /// input request number `at` (0-based) fails with error kind `kind`
    InErr { at: usize, kind: u8 },
    /// output number `at` (0-based) is refused: kind 0 = `Ok(0)`, else an `Err`
    OutRefuse { at: usize, kind: u8 },
    NoReader,
    NoWriter,
}

pub const ERR_KINDS: [io::ErrorKind; 5] = [
    io::ErrorKind::Interrupted,
    io::ErrorKind::WouldBlock,
    io::ErrorKind::UnexpectedEof,
    io::ErrorKind::BrokenPipe,
    io::ErrorKind::Other,
];

impl Fault {
    pub fn to_json(&self) -> Value {
        match *self {
            Fault::None => json!({"kind": "none"}),
            Fault::InErr { at, kind } => json!({"kind": "in_err", "at": at, "err": kind}),
            Fault::OutRefuse { at, kind } => json!({"kind": "out_refuse", "at": at, "err": kind}),
            Fault::NoReader => json!({"kind": "no_reader"}),
            Fault::NoWriter => json!({"kind": "no_writer"}),
        }
    }

    pub fn from_json(v: &Value) -> Option<Fault> {
        let at = v.get("at").and_then(|x| x.as_u64()).unwrap_or(0) as usize;
        let kind = v.get("err").and_then(|x| x.as_u64()).unwrap_or(0) as u8;
        Some(match v.get("kind")?.as_str()? {
            "none" => Fault::None,
            "in_err" => Fault::InErr { at, kind },
            "out_refuse" => Fault::OutRefuse { at, kind },
            "no_reader" => Fault::NoReader,
            "no_writer" => Fault::NoWriter,
            _ => return None,
        })
    }

    pub fn name(&self) -> &'static str {
        match self {
            Fault::None => "none",
            Fault::InErr { .. } => "in_err",
            Fault::OutRefuse { kind: 0, .. } => "out_refuse_ok0",
            Fault::OutRefuse { .. } => "out_refuse_err",
            Fault::NoReader => "no_reader",
            Fault::NoWriter => "no_writer",
        }
    }
}

/// State shared by the reader and the writer handed to `runtime::Context`.
pub struct World {
    pub peer: Peer,
    pub fault: Fault,
    pub events: Vec<Ev>,
    pub n_in: usize,
    pub n_out: u64,
    /// number of output *attempts* (accepted or refused)
    pub n_out_calls: usize,
    pub last_out: u8,
    /// Hard cap on logged events; beyond it every call is refused. Keeps a
    /// broken implementation from filling memory; reaching it is never a verdict by
    /// itself (the comparison with the reference fails earlier).
    pub max_events: usize,
    pub overflow: bool,
    /// Did the planned fault actually fire?
    pub fault_fired: bool,
    /// Value written into every caller-saved register on return (E10).
    pub junk: u64,
    /// calls with a buffer that is not exactly one byte long (contract of the seam)
    pub odd_calls: u32,
}

impl World {
    pub fn new(peer: Peer, fault: Fault, max_events: usize, junk: u64) -> World {
        World {
            peer,
            fault,
            events: Vec::with_capacity(64),
            n_in: 0,
            n_out: 0,
            n_out_calls: 0,
            last_out: 0,
            max_events,
            overflow: false,
            fault_fired: false,
            junk,
            odd_calls: 0,
        }
    }

    fn log(&mut self, ev: Ev) -> bool {
        if self.events.len() >= self.max_events {
            self.overflow = true;
            false
        } else {
            self.events.push(ev);
            true
        }
    }
}

/// Overwrite every register the sysv64 ABI lets a callee destroy, except `rax`
/// (return value). Code that returns into JIT-generated machine code after this
/// finds junk wherever the JIT failed to save a live value.
#[inline(never)]
pub fn clobber_caller_saved(junk: u64) {
    #[cfg(all(target_arch = "x86_64", not(miri)))]
    unsafe {
        std::arch::asm!(
            "mov rcx, {j}",
            "mov rdx, {j}",
            "mov rsi, {j}",
            "mov rdi, {j}",
            "mov r8, {j}",
            "mov r9, {j}",
            "mov r10, {j}",
            "mov r11, {j}",
            j = in(reg) junk,
            out("rcx") _, out("rdx") _, out("rsi") _, out("rdi") _,
            out("r8") _, out("r9") _, out("r10") _, out("r11") _,
            options(nostack, nomem),
        );
    }
    #[cfg(not(all(target_arch = "x86_64", not(miri))))]
    {
        let _ = junk;
    }
}

pub struct SimIn {
    pub world: *mut World,
}

pub struct SimOut {
    pub world: *mut World,
}

impl Read for SimIn {
    #[inline(never)]
    fn read(&mut self, buf: &mut [u8]) -> io::Result<usize> {
        crate::galloc::suspend(|| {
            // Safety: single-threaded; the World outlives the Context that owns us.
            let w = unsafe { &mut *self.world };
            if buf.len() != 1 {
                w.odd_calls += 1;
                if buf.is_empty() {
                    return Ok(0);
                }
            }
            let req = w.n_in;
            w.n_in += 1;
            let failing = match w.fault {
                Fault::InErr { at, .. } => req >= at,
                _ => false,
            };
            let res = if failing {
                let kind = if let Fault::InErr { kind, .. } = w.fault { kind } else { 0 };
                w.fault_fired = true;
                w.log(Ev::InErr);
                Err(io::Error::from(ERR_KINDS[kind as usize % ERR_KINDS.len()]))
            } else {
                let resp = w.peer.respond(req, w.n_out, w.last_out);
                if !w.log(Ev::In(resp)) {
                    Err(io::Error::from(io::ErrorKind::Other))
                } else {
                    match resp {
                        Some(b) => {
                            buf[0] = b;
                            Ok(1)
                        }
                        None => Ok(0),
                    }
                }
            };
            let junk = w.junk;
            clobber_caller_saved(junk);
            res
        })
    }
}

impl Write for SimOut {
    #[inline(never)]
    fn write(&mut self, buf: &[u8]) -> io::Result<usize> {
        crate::galloc::suspend(|| {
            let w = unsafe { &mut *self.world };
            if buf.len() != 1 {
                w.odd_calls += 1;
                if buf.is_empty() {
                    return Ok(0);
                }
            }
            let idx = w.n_out_calls;
            w.n_out_calls += 1;
            let byte = buf[0];
            let refuse = match w.fault {
                Fault::OutRefuse { at, .. } => idx >= at,
                _ => false,
            };
            let res = if refuse {
                let kind = if let Fault::OutRefuse { kind, .. } = w.fault { kind } else { 0 };
                w.fault_fired = true;
                w.log(Ev::OutRefused(byte));
                if kind == 0 {
                    Ok(0)
                } else {
                    Err(io::Error::from(ERR_KINDS[(kind as usize - 1) % ERR_KINDS.len()]))
                }
            } else if !w.log(Ev::Out(byte)) {
                Ok(0)
            } else {
                w.n_out += 1;
                w.last_out = byte;
                Ok(1)
            };
            let junk = w.junk;
            clobber_caller_saved(junk);
            res
        })
    }

    fn flush(&mut self) -> io::Result<()> {
        Ok(())
    }
}
