//! C11: the bytecode contract the unsafe backends rely on. Structural invariants on
//! every instruction, plus a *checked bytecode machine* (a stub executor) in which a
//! temporary is undefined until written and every register temporary that is not
//! declared live across a non-branch instruction is destroyed by it — the ABI-legal
//! worst case of a runtime call or an operand-register reuse at that instruction.

use std::collections::{BTreeMap, BTreeSet};

use hpbf::bc::{self, Instr, Loc};
use hpbf::{ir, CellType};
use serde_json::{json, Value};

use crate::check::Verdict;
use crate::gen;
use crate::peer::{Ev, Peer};
use crate::refmodel::{self, Limits, Status};
use crate::rng::Rng;

#[derive(Clone, Debug, PartialEq)]
pub struct BcCheck {
    pub prop: String,
    pub program: String,
    pub width: u32,
    pub level: u32,
    pub regs: usize,
    pub fuse: bool,
    pub peers: Vec<Peer>,
}

impl BcCheck {
    pub fn to_json(&self) -> Value {
        json!({
            "property": self.prop,
            "kind": "bytecode",
            "program": self.program,
            "width": self.width,
            "level": self.level,
            "regs": self.regs,
            "fuse": self.fuse,
            "peers": self.peers.iter().map(|p| p.to_json()).collect::<Vec<_>>(),
        })
    }

    pub fn from_json(v: &Value) -> Option<BcCheck> {
        Some(BcCheck {
            prop: v.get("property")?.as_str()?.to_string(),
            program: v.get("program")?.as_str()?.to_string(),
            width: v.get("width")?.as_u64()? as u32,
            level: v.get("level")?.as_u64()? as u32,
            regs: v.get("regs")?.as_u64()? as usize,
            fuse: v.get("fuse")?.as_bool()?,
            peers: v.get("peers")?.as_array()?.iter().map(Peer::from_json).collect::<Option<Vec<_>>>()?,
        })
    }

    pub fn size(&self) -> usize {
        self.program.len() * 100 + self.peers.iter().map(|p| 20 + p.script.len()).sum::<usize>() + self.level as usize
    }

    pub fn shrink_candidates(&self) -> Vec<BcCheck> {
        let mut out = Vec::new();
        if self.peers.len() > 1 {
            for i in 0..self.peers.len() {
                let mut n = self.clone();
                n.peers.remove(i);
                out.push(n);
            }
        }
        let prog: Vec<char> = self.program.chars().collect();
        let mut stack = Vec::new();
        for (i, &ch) in prog.iter().enumerate() {
            if ch == '[' {
                stack.push(i);
            } else if ch == ']' {
                if let Some(j) = stack.pop() {
                    let mut n = self.clone();
                    n.program = prog.iter().enumerate().filter(|(k, _)| *k != i && *k != j).map(|(_, c)| *c).collect();
                    out.push(n);
                }
            }
        }
        for i in 0..self.peers.len() {
            if !self.peers[i].script.is_empty() {
                let mut n = self.clone();
                n.peers[i].script.pop();
                out.push(n);
            }
        }
        if self.level > 0 {
            let mut n = self.clone();
            n.level = self.level.min(4) - 1;
            out.push(n);
        }
        if self.width != 8 {
            let mut n = self.clone();
            n.width = 8;
            out.push(n);
        }
        out
    }

    pub fn remove_primary(&self, start: usize, len: usize) -> Option<BcCheck> {
        let chars: Vec<char> = self.program.chars().collect();
        if start >= chars.len() {
            return None;
        }
        let end = (start + len).min(chars.len());
        let cand: String = chars[..start].iter().chain(chars[end..].iter()).collect();
        if !gen::balanced(&cand) {
            return None;
        }
        let mut n = self.clone();
        n.program = cand;
        Some(n)
    }
}

fn locs<C: CellType>(i: &Instr<C>) -> (Option<Loc<C>>, Vec<Loc<C>>) {
    match *i {
        Instr::Add(d, a, b) | Instr::Sub(d, a, b) | Instr::Mul(d, a, b) => (Some(d), vec![a, b]),
        Instr::Copy(d, s) => (Some(d), vec![s]),
        _ => (None, vec![]),
    }
}

/// Exact structural invariants on every instruction.
fn structural<C: CellType>(p: &bc::Program<C>, c: &BcCheck, v: &mut Verdict) {
    let n = p.insts.len();
    if p.live.len() != n {
        v.fail("live-length", 0, format!("live has {} entries for {} instructions", p.live.len(), n));
        return;
    }
    if !(p.min_accessed <= 0 && 0 <= p.max_accessed) {
        v.fail("window-excludes-zero", 0, format!("access window [{}, {}] does not contain 0", p.min_accessed, p.max_accessed));
        return;
    }
    let in_window = |o: isize| o >= p.min_accessed && o <= p.max_accessed;
    for (i, inst) in p.insts.iter().enumerate() {
        let bad_cell = match *inst {
            Instr::Scan(cond, _) | Instr::Inp(cond) | Instr::Out(cond) | Instr::BrZ(cond, _) | Instr::BrNZ(cond, _) => {
                if in_window(cond) {
                    None
                } else {
                    Some(cond)
                }
            }
            _ => None,
        };
        if let Some(o) = bad_cell {
            v.fail("operand-outside-window", i, format!("instruction {} `{:?}` uses cell {} outside the declared window [{}, {}]", i, inst, o, p.min_accessed, p.max_accessed));
            return;
        }
        if let Instr::BrZ(_, off) | Instr::BrNZ(_, off) = *inst {
            let t = i as isize + off;
            if t < 0 || t > n as isize {
                v.fail("branch-out-of-program", i, format!("instruction {} `{:?}` branches to {} but the program has {} instructions", i, inst, t, n));
                return;
            }
        }
        if let Instr::Scan(_, _) = inst {
            if !c.fuse {
                v.fail("scan-without-fusion", i, format!("instruction {} is a scan although fusion is off", i));
                return;
            }
        }
        if let Instr::Noop = inst {
            v.fail("noop-left", i, format!("instruction {} is a no-op that was not stripped", i));
            return;
        }
        let (dst, srcs) = locs(inst);
        if let Some(d) = dst {
            if matches!(d, Loc::Imm(_) | Loc::MemZero(_)) {
                v.fail("bad-destination", i, format!("instruction {} `{:?}` writes to an immediate or read-and-clear operand", i, inst));
                return;
            }
        }
        for l in dst.iter().chain(srcs.iter()) {
            match *l {
                Loc::Mem(o) | Loc::MemZero(o) if !in_window(o) => {
                    v.fail("operand-outside-window", i, format!("instruction {} `{:?}` uses cell {} outside the declared window [{}, {}]", i, inst, o, p.min_accessed, p.max_accessed));
                    return;
                }
                Loc::MemZero(_) if !c.fuse => {
                    v.fail("memzero-without-fusion", i, format!("instruction {} `{:?}` has a read-and-clear operand although fusion is off", i, inst));
                    return;
                }
                Loc::Tmp(t) if t >= p.temps => {
                    v.fail("temp-index-too-large", i, format!("instruction {} `{:?}` uses temporary {} but only {} are declared", i, inst, t, p.temps));
                    return;
                }
                _ => {}
            }
        }
    }
}

struct Machine<C: CellType> {
    tape: BTreeMap<i64, C>,
    ptr: i64,
    temps: Vec<Option<C>>,
}

impl<C: CellType> Machine<C> {
    fn get(&self, o: isize) -> C {
        self.tape.get(&(self.ptr + o as i64)).copied().unwrap_or(C::ZERO)
    }
    fn set(&mut self, o: isize, v: C) {
        if v == C::ZERO {
            self.tape.remove(&(self.ptr + o as i64));
        } else {
            self.tape.insert(self.ptr + o as i64, v);
        }
    }
}

/// Run the bytecode on the checked machine against one peer.
fn monitor<C: CellType>(p: &bc::Program<C>, c: &BcCheck, peer: &Peer, v: &mut Verdict, arms: &mut BTreeSet<(usize, bool)>) -> Option<Vec<Ev>> {
    let mut m = Machine::<C> { tape: BTreeMap::new(), ptr: 0, temps: vec![None; p.temps.max(2)] };
    let n = p.insts.len();
    let mut pc = 0usize;
    let mut steps = 0u64;
    let mut events = Vec::new();
    let (mut n_in, mut n_out, mut last_out) = (0usize, 0u64, 0u8);
    let regs = c.regs.min(16);
    while pc < n {
        steps += 1;
        if steps > 300_000 || events.len() > 4096 {
            v.bump("monitor_step_cap");
            return None;
        }
        let inst = p.insts[pc];
        let live = p.live[pc];
        let mut next = pc + 1;
        let mut dst_tmp: Option<usize> = None;
        let mut is_branch = false;
        macro_rules! read {
            ($l:expr) => {
                match $l {
                    Loc::Mem(o) => m.get(o),
                    Loc::MemZero(o) => {
                        let x = m.get(o);
                        m.set(o, C::ZERO);
                        x
                    }
                    Loc::Imm(i) => i,
                    Loc::Tmp(t) => match m.temps.get(t).copied().flatten() {
                        Some(x) => x,
                        None => {
                            v.fail(
                                "read-of-undefined-temporary",
                                pc,
                                format!(
                                    "instruction {} `{:?}` reads %{} which is undefined here: never written on this path, or not declared live across an earlier non-branch instruction (executed {} steps, setting {} registers)",
                                    pc, inst, t, steps, c.regs
                                ),
                            );
                            return None;
                        }
                    },
                }
            };
        }
        macro_rules! write {
            ($l:expr, $val:expr) => {
                match $l {
                    Loc::Mem(o) => m.set(o, $val),
                    Loc::Tmp(t) => {
                        if t < m.temps.len() {
                            m.temps[t] = Some($val);
                        }
                        dst_tmp = Some(t);
                    }
                    _ => {}
                }
            };
        }
        match inst {
            Instr::Noop => {}
            Instr::Scan(cond, shift) => {
                let mut guard = 0u64;
                while m.get(cond) != C::ZERO {
                    m.ptr += shift as i64;
                    guard += 1;
                    if guard > 300_000 {
                        v.bump("monitor_step_cap");
                        return None;
                    }
                }
            }
            Instr::Mov(shift) => m.ptr += shift as i64,
            Instr::Inp(dst) => {
                let r = peer.respond(n_in, n_out, last_out);
                n_in += 1;
                events.push(Ev::In(r));
                m.set(dst, C::from_u64(r.unwrap_or(0) as u64));
            }
            Instr::Out(src) => {
                let b = m.get(src).into_u64() as u8;
                events.push(Ev::Out(b));
                n_out += 1;
                last_out = b;
            }
            Instr::BrZ(cond, off) => {
                is_branch = true;
                let taken = m.get(cond) == C::ZERO;
                arms.insert((pc, taken));
                if taken {
                    next = (pc as isize + off) as usize;
                }
            }
            Instr::BrNZ(cond, off) => {
                is_branch = true;
                let taken = m.get(cond) != C::ZERO;
                arms.insert((pc, taken));
                if taken {
                    next = (pc as isize + off) as usize;
                }
            }
            Instr::Add(d, a, b) => {
                let x = read!(a);
                let y = read!(b);
                write!(d, x.wrapping_add(y));
            }
            Instr::Sub(d, a, b) => {
                let x = read!(a);
                let y = read!(b);
                write!(d, x.wrapping_add(y.wrapping_neg()));
            }
            Instr::Mul(d, a, b) => {
                let x = read!(a);
                let y = read!(b);
                write!(d, x.wrapping_mul(y));
            }
            Instr::Copy(d, s) => {
                let x = read!(s);
                write!(d, x);
            }
        }
        if !is_branch {
            // the worst the executors may legally do at this instruction
            for t in 0..regs.min(m.temps.len()) {
                if live & (1 << t) == 0 && dst_tmp != Some(t) {
                    m.temps[t] = None;
                }
            }
        }
        pc = next;
    }
    Some(events)
}

fn eval_typed<C: CellType>(c: &BcCheck, v: &mut Verdict) {
    let prog = match std::panic::catch_unwind(|| ir::Program::<C>::parse(&c.program).map(|p| p.optimize(c.level))) {
        Ok(Ok(p)) => p,
        _ => {
            v.bump("not_compilable");
            return;
        }
    };
    let bcp = match std::panic::catch_unwind(std::panic::AssertUnwindSafe(|| bc::CodeGen::translate(&prog, c.regs, c.fuse))) {
        Ok(p) => p,
        Err(_) => {
            // totality is C13's property
            v.bump("translate_panicked");
            return;
        }
    };
    v.add("instructions_checked", bcp.insts.len() as u64);
    structural(&bcp, c, v);
    if v.class.is_some() {
        return;
    }
    let mut arms = BTreeSet::new();
    for peer in &c.peers {
        let events = monitor(&bcp, c, peer, v, &mut arms);
        v.executions += 1;
        if v.class.is_some() {
            return;
        }
        if let Some(ev) = events {
            // third opinion on the bytecode's meaning (reported, not a verdict of C11)
            let r = refmodel::run(&c.program, c.width, peer, Limits { max_steps: 200_000, max_events: 1 << 16, min_events_on_cycle: 0, accelerate: true, mute_output: false });
            v.ref_steps += r.steps;
            if r.status == Status::Halted {
                v.bump(if r.events == ev { "bytecode_history_matches_reference" } else { "bytecode_history_DIFFERS_from_reference" });
                if r.loop_iters >= 1 && !r.events.is_empty() {
                    v.nontrivial = true;
                }
            }
        }
    }
    v.add("branch_arms_taken", arms.len() as u64);
    let possible = bcp.insts.iter().filter(|i| matches!(i, Instr::BrZ(..) | Instr::BrNZ(..))).count() * 2;
    v.add("branch_arms_possible", possible as u64);
    if bcp.temps > 11 {
        v.bump("programs_with_stack_temporaries");
    }
    if bcp.temps > 4 {
        v.bump("programs_with_caller_saved_temporaries");
    }
}

pub fn evaluate(c: &BcCheck) -> Verdict {
    let mut v = Verdict::default();
    match c.width {
        8 => eval_typed::<u8>(c, &mut v),
        16 => eval_typed::<u16>(c, &mut v),
        32 => eval_typed::<u32>(c, &mut v),
        _ => eval_typed::<u64>(c, &mut v),
    }
    v
}

pub fn generate(rng: &mut Rng, prop: &str, corpus: &[String]) -> Vec<BcCheck> {
    let width = *rng.pick(&crate::props::WIDTHS);
    let fam = *rng.pick(&[
        gen::Family::Raw,
        gen::Family::Raw,
        gen::Family::Corpus,
        gen::Family::Structured,
        gen::Family::Structured,
        gen::Family::Structured,
        gen::Family::Pressure,
        gen::Family::Pressure,
        gen::Family::Roamer,
        gen::Family::IoPressure,
        gen::Family::IoPressure,
        gen::Family::Idioms,
        gen::Family::Brackets,
        gen::Family::Explosive,
    ]);
    let program = gen::program(rng, fam, width, corpus, false);
    let mut peers: Vec<Peer> = (0..3).map(|_| Peer::generate(rng)).collect();
    if fam == gen::Family::Pressure {
        for p in peers.iter_mut() {
            p.mask = p.mask.min(3);
        }
    }
    let mut out = Vec::new();
    for level in [0u32, 1, 2, 3] {
        for (regs, fuse) in [(2usize, true), (11usize, false)] {
            out.push(BcCheck { prop: prop.to_string(), program: program.clone(), width, level, regs, fuse, peers: peers.clone() });
        }
    }
    out
}
