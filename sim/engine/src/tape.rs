//! C09: histories of calls on `runtime::Memory` against a map model, under the
//! guard allocator (placement, poison, same-address reuse).

use std::collections::BTreeMap;

use hpbf::runtime::Memory;
use hpbf::CellType;
use serde_json::{json, Value};

use crate::case::AllocPlan;
use crate::check::Verdict;
use crate::galloc;
use crate::rng::Rng;

#[derive(Clone, Copy, Debug, PartialEq)]
pub enum Op {
    Mov(i64),
    Read(i64),
    Write(i64, u64),
    Access(i64, i64),
    Check(i64),
    /// `set_current_ptr(current_ptr() + k cells)`: must act like `mov(k)`
    PtrRel(i64),
    /// `check_ptr(current_ptr() + off cells)` must agree with `check(off)`
    CheckPtr(i64),
    /// A growth request no allocator can serve (`write(off, 1)` if the flag is set, else
    /// `make_accessible(off, off + 1)`, with `off` at least 2^44 cells away), made in a forked
    /// child under `catch_unwind`: the child aborts, or panics and leaves the tape as it was.
    Impossible(i64, bool),
}

#[derive(Clone, Debug, PartialEq)]
pub struct TapeCheck {
    pub prop: String,
    pub width: u32,
    pub ops: Vec<Op>,
    pub alloc: AllocPlan,
}

impl Op {
    fn to_json(&self) -> Value {
        match *self {
            Op::Mov(o) => json!(["mov", o]),
            Op::Read(o) => json!(["read", o]),
            Op::Write(o, v) => json!(["write", o, v]),
            Op::Access(s, e) => json!(["make_accessible", s, e]),
            Op::Check(o) => json!(["check", o]),
            Op::PtrRel(k) => json!(["set_current_ptr_rel", k]),
            Op::CheckPtr(o) => json!(["check_ptr", o]),
            Op::Impossible(o, w) => json!(["impossible_growth", o, w]),
        }
    }

    fn from_json(v: &Value) -> Option<Op> {
        let a = v.as_array()?;
        let n = |i: usize| a.get(i).and_then(|x| x.as_i64());
        Some(match a.first()?.as_str()? {
            "mov" => Op::Mov(n(1)?),
            "read" => Op::Read(n(1)?),
            "write" => Op::Write(n(1)?, a.get(2)?.as_u64()?),
            "make_accessible" => Op::Access(n(1)?, n(2)?),
            "check" => Op::Check(n(1)?),
            "set_current_ptr_rel" => Op::PtrRel(n(1)?),
            "check_ptr" => Op::CheckPtr(n(1)?),
            "impossible_growth" => Op::Impossible(n(1)?, a.get(2)?.as_bool()?),
            _ => return None,
        })
    }
}

impl TapeCheck {
    pub fn to_json(&self) -> Value {
        json!({
            "property": self.prop,
            "kind": "tape",
            "width": self.width,
            "ops": self.ops.iter().map(|o| o.to_json()).collect::<Vec<_>>(),
            "alloc": {"guard": self.alloc.guard, "seed": self.alloc.seed, "reuse": self.alloc.reuse},
        })
    }

    pub fn from_json(v: &Value) -> Option<TapeCheck> {
        let a = v.get("alloc")?;
        Some(TapeCheck {
            prop: v.get("property")?.as_str()?.to_string(),
            width: v.get("width")?.as_u64()? as u32,
            ops: v.get("ops")?.as_array()?.iter().map(Op::from_json).collect::<Option<Vec<_>>>()?,
            alloc: AllocPlan {
                guard: a.get("guard")?.as_bool()?,
                seed: a.get("seed").and_then(|x| x.as_u64()).unwrap_or(0),
                reuse: a.get("reuse").and_then(|x| x.as_bool()).unwrap_or(false),
                fail_at: None,
            },
        })
    }

    pub fn size(&self) -> usize {
        let mag = |x: i64| (64 - x.unsigned_abs().leading_zeros()) as usize;
        let mut s = self.ops.len() * 1000;
        for o in &self.ops {
            s += match *o {
                Op::Mov(o) | Op::Read(o) | Op::Check(o) | Op::PtrRel(o) | Op::CheckPtr(o) | Op::Impossible(o, _) => mag(o),
                Op::Write(o, v) => mag(o) + (v > 1) as usize,
                Op::Access(a, b) => mag(a) + mag(b),
            };
        }
        s + self.alloc.guard as usize * 50 + self.alloc.reuse as usize * 10 + (self.width as usize / 8)
    }

    pub fn shrink_candidates(&self) -> Vec<TapeCheck> {
        let mut out = Vec::new();
        for (i, o) in self.ops.iter().enumerate() {
            let mut alts: Vec<Op> = Vec::new();
            let half = |x: i64| x / 2;
            match *o {
                Op::Mov(x) if x != 0 => alts.extend([Op::Mov(half(x)), Op::Mov(x - x.signum())]),
                Op::Read(x) if x != 0 => alts.extend([Op::Read(0), Op::Read(half(x)), Op::Read(x - x.signum())]),
                Op::Write(x, v) => {
                    if x != 0 {
                        alts.extend([Op::Write(0, v), Op::Write(half(x), v), Op::Write(x - x.signum(), v)]);
                    }
                    if v > 1 {
                        alts.push(Op::Write(x, 1));
                    }
                }
                Op::Access(a, b) => {
                    if a != 0 {
                        alts.extend([Op::Access(half(a), b), Op::Access(a - a.signum(), b)]);
                    }
                    if b != 0 {
                        alts.extend([Op::Access(a, half(b)), Op::Access(a, b - b.signum())]);
                    }
                }
                Op::Check(x) if x != 0 => alts.extend([Op::Check(half(x)), Op::Check(x - x.signum())]),
                Op::PtrRel(x) if x != 0 => alts.extend([Op::PtrRel(half(x)), Op::Mov(x)]),
                Op::CheckPtr(x) if x != 0 => alts.extend([Op::CheckPtr(half(x)), Op::Check(x)]),
                Op::Impossible(x, w) => {
                    if x.unsigned_abs() > 1 << 44 {
                        alts.push(Op::Impossible(x.signum() << 44, w));
                    }
                    if !w {
                        alts.push(Op::Impossible(x, true));
                    }
                }
                _ => {}
            }
            for a in alts {
                let mut n = self.clone();
                n.ops[i] = a;
                out.push(n);
            }
        }
        if self.alloc.reuse {
            let mut n = self.clone();
            n.alloc.reuse = false;
            out.push(n);
        }
        if self.alloc.guard {
            let mut n = self.clone();
            n.alloc = AllocPlan::OFF;
            out.push(n);
        }
        if self.width != 8 {
            let mut n = self.clone();
            n.width = 8;
            out.push(n);
        }
        out
    }
}

/// Cells further than this from the origin are never written or requested (the tape is one
/// contiguous block, so reaching them would need that many cells of memory).
const FAR_LIMIT: u64 = 16_000_000;

struct Model {
    cells: BTreeMap<i64, u64>,
    p: i64,
}

fn mask(width: u32) -> u64 {
    if width == 64 {
        u64::MAX
    } else {
        (1u64 << width) - 1
    }
}

fn run_history<C: CellType>(c: &TapeCheck, v: &mut Verdict) {
    let m = mask(c.width);
    let mut model = Model { cells: BTreeMap::new(), p: 0 };
    let g = c.alloc.guard;
    let mut mem = Memory::<C>::new();
    let mut grew_then_read_back = false;
    let mut growths = 0u64;
    let mut touched: Vec<i64> = Vec::new();
    let mut skipped = 0u64;
    let mut far_probes = 0u64;
    let mut impossible = 0u64;
    let near = |cell: i64| cell.unsigned_abs() <= FAR_LIMIT;
    for (i, op) in c.ops.iter().enumerate() {
        let req_before = galloc::requests();
        match *op {
            Op::Mov(o) => {
                galloc::with_zone(g, || mem.mov(o as isize));
                model.p = model.p.wrapping_add(o);
            }
            Op::Read(o) => {
                far_probes += !near(model.p.wrapping_add(o)) as u64;
                let got = galloc::with_zone(g, || mem.read(o as isize)).into_u64();
                let want = model.cells.get(&model.p.wrapping_add(o)).copied().unwrap_or(0);
                if c.alloc.guard && galloc::requests() != req_before {
                    v.fail("read-allocated", i, format!("op {}: read({}) made the allocator serve a request", i, o));
                    return;
                }
                if got != want {
                    v.fail("wrong-read", i, format!("op {}: read({}) at logical cell {} returned {} but the last value written there is {}", i, o, model.p.wrapping_add(o), got, want));
                    return;
                }
                if want != 0 && growths > 0 {
                    grew_then_read_back = true;
                }
            }
            Op::Write(o, val) => {
                // a write makes the tape span reach the cell: cells further than FAR_LIMIT from
                // the origin are only ever read, tested and moved to (they cannot be allocated)
                if !near(model.p.wrapping_add(o)) {
                    skipped += 1;
                    continue;
                }
                galloc::with_zone(g, || mem.write(o as isize, C::from_u64(val & m)));
                model.cells.insert(model.p.wrapping_add(o), val & m);
                touched.push(model.p.wrapping_add(o));
            }
            Op::Access(s, e) => {
                if !near(model.p.wrapping_add(s)) || !near(model.p.wrapping_add(e)) {
                    skipped += 1;
                    continue;
                }
                galloc::with_zone(g, || mem.make_accessible(s as isize, e as isize));
                if s < e {
                    let lo = galloc::with_zone(g, || mem.check(s as isize));
                    let hi = galloc::with_zone(g, || mem.check((e - 1) as isize));
                    if !lo || !hi {
                        v.fail("not-accessible", i, format!("op {}: after make_accessible({}, {}) check({})={} check({})={}", i, s, e, s, lo, e - 1, hi));
                        return;
                    }
                }
            }
            Op::Check(o) => {
                far_probes += !near(model.p.wrapping_add(o)) as u64;
                let ok = galloc::with_zone(g, || mem.check(o as isize));
                if c.alloc.guard && galloc::requests() != req_before {
                    v.fail("check-allocated", i, format!("op {}: check({}) made the allocator serve a request", i, o));
                    return;
                }
                // (geometric growth may legitimately reach somewhat beyond the cells ever asked for:
                // the furthest request is 1.6e7 cells out, so nothing beyond 2^30 can be part of a block)
                if ok && model.p.wrapping_add(o).unsigned_abs() > (1u64 << 30) {
                    v.fail("far-cell-accessible", i, format!("op {}: check({}) reports logical cell {} accessible, which no write or accessibility request ever came near", i, o, model.p.wrapping_add(o)));
                    return;
                }
                if ok {
                    // an accessible cell can be written without any allocation
                    let r0 = galloc::requests();
                    let cur = galloc::with_zone(g, || mem.read(o as isize));
                    galloc::with_zone(g, || mem.write(o as isize, cur));
                    if c.alloc.guard && galloc::requests() != r0 {
                        v.fail("accessible-write-allocated", i, format!("op {}: check({}) said accessible but writing there allocated", i, o));
                        return;
                    }
                }
            }
            Op::PtrRel(k) => {
                // pointers only stand for cells within the address space around the block
                if !near(model.p) || !near(model.p.wrapping_add(k)) {
                    skipped += 1;
                    continue;
                }
                let p = mem.current_ptr().wrapping_offset(k as isize);
                galloc::with_zone(g, || mem.set_current_ptr(p));
                model.p += k;
            }
            Op::Impossible(_, _) if cfg!(miri) => skipped += 1, // no fork under Miri
            Op::Impossible(o, as_write) => {
                impossible += 1;
                // only with the pointer near the origin and a distance in 2^44..=2^62, where
                // the request is well defined and cannot be served
                if !near(model.p) || !(1u64 << 44..=1u64 << 62).contains(&o.unsigned_abs()) {
                    skipped += 1;
                    continue;
                }
                let mut sample: Vec<i64> = touched.iter().rev().take(8).copied().collect();
                sample.extend([model.p, model.p + 1, model.p - 1]);
                let before: Vec<(i64, u64, bool)> = sample
                    .iter()
                    .map(|&cell| {
                        let rel = cell.wrapping_sub(model.p) as isize;
                        (cell, mem.read(rel).into_u64(), mem.check(rel))
                    })
                    .collect();
                let p0 = model.p;
                let end = crate::isolate::run_forked(
                    || {
                        let r = std::panic::catch_unwind(std::panic::AssertUnwindSafe(|| {
                            galloc::with_zone(g, || {
                                if as_write {
                                    mem.write(o as isize, C::from_u64(1))
                                } else {
                                    mem.make_accessible(o as isize, (o + 1) as isize)
                                }
                            })
                        }));
                        if r.is_ok() {
                            return "returned".to_string();
                        }
                        // the panic was caught: the tape must be what it was
                        if galloc::with_zone(g, || mem.check(o as isize)) {
                            return format!("stale check({}) reports the cell accessible after the request panicked", o);
                        }
                        for &(cell, val, acc) in &before {
                            let rel = cell.wrapping_sub(p0) as isize;
                            let (v2, a2) = galloc::with_zone(g, || (mem.read(rel).into_u64(), mem.check(rel)));
                            if v2 != val || a2 != acc {
                                return format!("stale logical cell {} read {} accessible {} before the request, {} / {} after it panicked", cell, val, acc, v2, a2);
                            }
                        }
                        // and it must still work
                        galloc::with_zone(g, || mem.write(0, C::from_u64(1)));
                        if galloc::with_zone(g, || mem.read(0)).into_u64() != 1 {
                            return "stale a write after the panicked request does not read back".to_string();
                        }
                        "panic".to_string()
                    },
                    std::time::Duration::from_secs(20),
                );
                use crate::isolate::ChildEnd;
                match end {
                    ChildEnd::Exited(pl) if pl == "panic" => v.bump("impossible_growth_ended_by_panic"),
                    ChildEnd::Exited(pl) if pl == "returned" => {
                        v.fail("impossible-growth-returned", i, format!("op {}: a request for a cell {} cells away returned normally", i, o));
                        return;
                    }
                    ChildEnd::Exited(pl) => {
                        v.fail("stale-tape-after-panic", i, format!("op {}: request for a cell {} cells away: {}", i, o, pl.trim_start_matches("stale ")));
                        return;
                    }
                    ChildEnd::Died { sig, status } => {
                        let name = sig.as_deref().and_then(|x| x.split_whitespace().next()).unwrap_or("").to_string();
                        if name == "ABRT" {
                            v.bump("impossible_growth_ended_by_abort");
                        } else {
                            let class = crate::parent::crash_class(sig.as_deref(), Some(&status.to_string()));
                            v.fail(&class, i, format!("op {}: request for a cell {} cells away: the process died by {:?}, not by the allocation-failure abort or a panic", i, o, sig));
                            return;
                        }
                    }
                    ChildEnd::Hang => {
                        v.fail("hang", i, format!("op {}: request for a cell {} cells away did not end within 20 s", i, o));
                        return;
                    }
                }
            }
            Op::CheckPtr(o) => {
                if !near(model.p) || !near(model.p.wrapping_add(o)) {
                    skipped += 1;
                    continue;
                }
                let p = mem.current_ptr().wrapping_offset(o as isize);
                let a = galloc::with_zone(g, || mem.check_ptr(p));
                let b = galloc::with_zone(g, || mem.check(o as isize));
                if a != b {
                    v.fail("check-ptr-disagrees", i, format!("op {}: check_ptr(current+{}) = {} but check({}) = {}", i, o, a, o, b));
                    return;
                }
            }
        }
        if c.alloc.guard && galloc::requests() != req_before {
            growths += 1;
        }
    }
    // final sweep over everything ever written, +-3
    touched.sort();
    touched.dedup();
    for &cell in &touched {
        for d in -3..=3i64 {
            let idx = cell + d;
            let got = galloc::with_zone(g, || mem.read(idx.wrapping_sub(model.p) as isize)).into_u64();
            let want = model.cells.get(&idx).copied().unwrap_or(0);
            if got != want {
                v.fail("wrong-read", c.ops.len(), format!("final sweep: logical cell {} reads {} but should be {}", idx, got, want));
                return;
            }
        }
    }
    v.nontrivial = (growths >= 1 && grew_then_read_back) || (c.prop == "C17" && impossible > 0 && growths >= 1);
    if impossible > 0 {
        v.add("fired_impossible_growth_request", impossible);
    }
    v.add("growths", growths);
    v.add("ops_outside_history_space", skipped);
    v.add("reads_and_checks_of_far_cells", far_probes);
    galloc::with_zone(g, || drop(mem));
}

pub fn evaluate(c: &TapeCheck) -> Verdict {
    let mut v = Verdict::default();
    if c.alloc.guard {
        galloc::reset();
        galloc::set_plan(c.alloc.seed, c.alloc.reuse, None);
    }
    match c.width {
        8 => run_history::<u8>(c, &mut v),
        16 => run_history::<u16>(c, &mut v),
        32 => run_history::<u32>(c, &mut v),
        _ => run_history::<u64>(c, &mut v),
    }
    if c.alloc.guard {
        let st = galloc::stats();
        v.add("fired_alloc_guarded_requests", st.requests);
        v.add("fired_alloc_placed_flush_right", st.right_placed);
        v.add("fired_alloc_placed_flush_left", st.left_placed);
        v.add("fired_alloc_same_address_reuse", st.reused);
        if st.canary_hits > 0 {
            v.fail("canary", 0, "bytes next to a tape block were overwritten".into());
        }
        if st.size_mismatch > 0 {
            v.fail("dealloc-layout", 0, "a tape block was freed with a different layout than it was requested with".into());
        }
        if st.leaked_at_reset > 0 {
            v.add("leaked_blocks_previous_run", st.leaked_at_reset);
        }
        let live = galloc::live_blocks();
        if !live.is_empty() {
            v.fail("leak", 0, format!("{} tape block(s) still allocated after the tape was dropped", live.len()));
        }
    }
    v.executions = 1;
    v
}

/// Generate a history. A live tape is driven alongside so that offsets can be aimed
/// at the current allocation edges (found with `check`).
pub fn generate(rng: &mut Rng, prop: &str) -> TapeCheck {
    let width = *rng.pick(&crate::props::WIDTHS);
    let n = match rng.below(4) {
        0 => rng.urange(1, 6),
        1 | 2 => rng.urange(4, 24),
        _ => rng.urange(16, 60),
    };
    let far_max: i64 = if rng.chance(1, 16) { 3_000_000 } else { *rng.pick(&[40i64, 300, 5000, 200_000, 1_000_000]) };
    let mut live = Memory::<u8>::new();
    let mut ops = Vec::new();
    let mut pos = 0i64;
    let edges = |mem: &mut Memory<u8>| -> Option<(i64, i64)> {
        if !mem.check(0) {
            // pointer outside the allocation (or nothing allocated): look around a little
            return None;
        }
        let mut lo = 0i64;
        let mut step = 1i64;
        while step < (1 << 24) && mem.check((lo - step) as isize) {
            lo -= step;
            step *= 2;
        }
        while step > 1 {
            step /= 2;
            if mem.check((lo - step) as isize) {
                lo -= step;
            }
        }
        let mut hi = 0i64;
        let mut step = 1i64;
        while step < (1 << 24) && mem.check((hi + step) as isize) {
            hi += step;
            step *= 2;
        }
        while step > 1 {
            step /= 2;
            if mem.check((hi + step) as isize) {
                hi += step;
            }
        }
        Some((lo, hi))
    };
    // far excursions: the pointer (or one offset) goes to the other end of the index space,
    // where cells are only read, tested and moved to, and comes back
    let far_dist = |rng: &mut Rng| -> i64 {
        let base = match rng.below(8) {
            0 => i64::MIN,
            1 => i64::MAX,
            2 => 3i64 << 61,
            3 => (1i64 << 62) + (1i64 << 61),
            _ => 1i64 << *rng.pick(&[31u32, 32, 33, 40, 47, 48, 56, 60, 61, 62]),
        };
        let base = if rng.coin() { base } else { base.wrapping_neg() };
        base.wrapping_add(*rng.pick(&[0i64, 0, 0, 1, -1, 2, -2, 4096, -4096]))
    };
    let with_far = rng.chance(1, 6);
    let mut away: Option<i64> = None;
    for step in 0..n {
        if with_far {
            if let Some(h) = away {
                let small = rng.range(-40, 40);
                let op = if step + 1 == n || rng.chance(1, 3) {
                    away = None;
                    Op::Mov(h.wrapping_neg())
                } else {
                    match rng.below(6) {
                        0 | 1 => Op::Read(small),
                        2 => Op::Check(small),
                        // cells near the origin seen from far away
                        3 | 4 => Op::Read(small.wrapping_sub(h)),
                        _ => Op::Write(small.wrapping_sub(h), 1 + rng.below(255)),
                    }
                };
                match op {
                    Op::Mov(o) => live.mov(o as isize),
                    Op::Write(o, v) => live.write(o as isize, v as u8),
                    _ => {}
                }
                ops.push(op);
                continue;
            }
            if rng.chance(1, 4) {
                let h = far_dist(rng);
                let op = match rng.below(4) {
                    0 => Op::Read(h),
                    1 => Op::Check(h),
                    _ if step + 1 < n => {
                        away = Some(h);
                        live.mov(h as isize);
                        Op::Mov(h)
                    }
                    _ => Op::Read(h),
                };
                ops.push(op);
                continue;
            }
        }
        // edges reported by the implementation under test are only used if they are sane,
        // so that a broken `check` cannot make the generator ask for absurd allocations
        let e = edges(&mut live).filter(|&(lo, hi)| lo >= -6_000_000 && hi <= 6_000_000 && lo <= 0 && hi >= 0);
        let mut off = |rng: &mut Rng| -> i64 {
            match (rng.below(10), e) {
                (0..=2, _) => rng.range(-3, 3),
                (3..=4, Some((lo, hi))) => {
                    if rng.coin() {
                        lo + rng.range(-2, 2)
                    } else {
                        hi + rng.range(-2, 2)
                    }
                }
                // beyond an edge by a fraction of the current size (geometric growth decides)
                (5, Some((lo, hi))) => {
                    let span = hi - lo + 1;
                    let d = match rng.below(3) {
                        0 => rng.range(0, span / 8 + 1),
                        1 => rng.range(span / 8, span / 2 + 1),
                        _ => rng.range(span / 4, span + 1),
                    };
                    if rng.coin() {
                        lo - d
                    } else {
                        hi + d
                    }
                }
                (6, _) => rng.range(-far_max, far_max),
                (7, _) => {
                    let x = rng.range(1, far_max);
                    if rng.coin() {
                        x
                    } else {
                        -x
                    }
                }
                _ => rng.range(-40, 40),
            }
        };
        let op = match rng.below(16) {
            0..=2 => Op::Mov(off(rng)),
            3..=5 => Op::Read(off(rng)),
            6..=9 => Op::Write(off(rng), 1 + rng.below(255)),
            10 | 11 => {
                let a = off(rng);
                let b = off(rng);
                match (rng.below(6), e) {
                    // both ends at once, each beyond its edge by its own fraction of the size
                    (4 | 5, Some((lo, hi))) => {
                        let span = hi - lo + 1;
                        let mut d = |rng: &mut Rng| match rng.below(4) {
                            0 => rng.range(1, 3),
                            1 => rng.range(1, span / 16 + 2),
                            2 => rng.range(span / 8, span / 4 + 2),
                            _ => rng.range(span / 4, span / 2 + 2),
                        };
                        let below = d(rng);
                        let above = d(rng);
                        Op::Access(lo - below, hi + 1 + above)
                    }
                    (0 | 4, _) => Op::Access(a.min(b), a.max(b) + 1), // may extend below and above at once
                    (1, _) => Op::Access(a, a + rng.range(0, 4)),
                    (2 | 5, _) => Op::Access(-rng.range(0, far_max / 2 + 1), rng.range(1, far_max / 2 + 1)),
                    _ => Op::Access(a, b), // possibly empty or reversed
                }
            }
            12 => Op::Check(off(rng)),
            13 => Op::PtrRel(off(rng)),
            14 => Op::CheckPtr(off(rng)),
            _ => Op::Read(off(rng)),
        };
        // keep the logical pointer within +-4e6 cells (bounds stated in DESIGN.md)
        let op = match op {
            Op::Mov(o) if (pos + o).abs() > 4_000_000 => Op::Mov(-o),
            Op::PtrRel(o) if (pos + o).abs() > 4_000_000 => Op::PtrRel(-o),
            x => x,
        };
        if let Op::Mov(o) | Op::PtrRel(o) = op {
            pos += o;
        }
        // drive the live tape so that the next offsets aim at real edges
        match op {
            Op::Mov(o) | Op::PtrRel(o) => live.mov(o as isize),
            Op::Write(o, v) => live.write(o as isize, v as u8),
            Op::Access(s, e) => {
                // keep generation-time allocations bounded
                if (e - s).abs() <= 4_000_000 {
                    live.make_accessible(s as isize, e as isize)
                }
            }
            _ => {}
        }
        ops.push(op);
    }
    let alloc = if rng.chance(7, 8) {
        AllocPlan { guard: true, seed: rng.next(), reuse: rng.chance(1, 3), fail_at: None }
    } else {
        AllocPlan::OFF
    };
    TapeCheck { prop: prop.to_string(), width, ops, alloc }
}

/// C17 at the API level: a generated history with one request that cannot be served,
/// placed where the pointer is near the origin.
pub fn generate_impossible(rng: &mut Rng, prop: &str) -> TapeCheck {
    let mut c = generate(rng, prop);
    let mut pos = 0i64;
    let mut places = vec![0usize];
    for (i, op) in c.ops.iter().enumerate() {
        if let Op::Mov(o) | Op::PtrRel(o) = *op {
            pos = pos.wrapping_add(o);
        }
        if pos.unsigned_abs() <= 8_000_000 {
            places.push(i + 1);
        }
    }
    // mostly late, so that the tape has grown before
    let at = if rng.coin() { *places.last().unwrap() } else { *rng.pick(&places) };
    // (from about 2^60 cells on the byte size no longer fits a Layout: panic instead of abort)
    let exp = if rng.coin() { rng.range(58, 61) } else { rng.range(44, 61) };
    let dist = (1i64 << exp) + *rng.pick(&[0i64, 0, 1, -1, 12345]);
    let dist = if rng.coin() { dist } else { -dist };
    c.ops.insert(at, Op::Impossible(dist, rng.chance(2, 3)));
    c
}
