//! C09: histories of calls on `runtime::Memory` against a map model, under the
//! guard allocator (placement, poison, same-address reuse).

use std::collections::BTreeMap;

use hpbf::runtime::Memory;
use hpbf::CellType;
use serde_json::{json, Value};

use crate::case::AllocPlan;
use crate::check::Verdict;
use crate::galloc;
use crate::rng::Rng;

#[derive(Clone, Copy, Debug, PartialEq)]
pub enum Op {
    Mov(i64),
    Read(i64),
    Write(i64, u64),
    Access(i64, i64),
    Check(i64),
    /// `set_current_ptr(current_ptr() + k cells)`: must act like `mov(k)`
    PtrRel(i64),
    /// `check_ptr(current_ptr() + off cells)` must agree with `check(off)`
    CheckPtr(i64),
}

#[derive(Clone, Debug, PartialEq)]
pub struct TapeCheck {
    pub prop: String,
    pub width: u32,
    pub ops: Vec<Op>,
    pub alloc: AllocPlan,
}

impl Op {
    fn to_json(&self) -> Value {
        match *self {
            Op::Mov(o) => json!(["mov", o]),
            Op::Read(o) => json!(["read", o]),
            Op::Write(o, v) => json!(["write", o, v]),
            Op::Access(s, e) => json!(["make_accessible", s, e]),
            Op::Check(o) => json!(["check", o]),
            Op::PtrRel(k) => json!(["set_current_ptr_rel", k]),
            Op::CheckPtr(o) => json!(["check_ptr", o]),
        }
    }

    fn from_json(v: &Value) -> Option<Op> {
        let a = v.as_array()?;
        let n = |i: usize| a.get(i).and_then(|x| x.as_i64());
        Some(match a.first()?.as_str()? {
            "mov" => Op::Mov(n(1)?),
            "read" => Op::Read(n(1)?),
            "write" => Op::Write(n(1)?, a.get(2)?.as_u64()?),
            "make_accessible" => Op::Access(n(1)?, n(2)?),
            "check" => Op::Check(n(1)?),
            "set_current_ptr_rel" => Op::PtrRel(n(1)?),
            "check_ptr" => Op::CheckPtr(n(1)?),
            _ => return None,
        })
    }
}

impl TapeCheck {
    pub fn to_json(&self) -> Value {
        json!({
            "property": self.prop,
            "kind": "tape",
            "width": self.width,
            "ops": self.ops.iter().map(|o| o.to_json()).collect::<Vec<_>>(),
            "alloc": {"guard": self.alloc.guard, "seed": self.alloc.seed, "reuse": self.alloc.reuse},
        })
    }

    pub fn from_json(v: &Value) -> Option<TapeCheck> {
        let a = v.get("alloc")?;
        Some(TapeCheck {
            prop: v.get("property")?.as_str()?.to_string(),
            width: v.get("width")?.as_u64()? as u32,
            ops: v.get("ops")?.as_array()?.iter().map(Op::from_json).collect::<Option<Vec<_>>>()?,
            alloc: AllocPlan {
                guard: a.get("guard")?.as_bool()?,
                seed: a.get("seed").and_then(|x| x.as_u64()).unwrap_or(0),
                reuse: a.get("reuse").and_then(|x| x.as_bool()).unwrap_or(false),
                fail_at: None,
            },
        })
    }

    pub fn size(&self) -> usize {
        let mag = |x: i64| (64 - x.unsigned_abs().leading_zeros()) as usize;
        let mut s = self.ops.len() * 1000;
        for o in &self.ops {
            s += match *o {
                Op::Mov(o) | Op::Read(o) | Op::Check(o) | Op::PtrRel(o) | Op::CheckPtr(o) => mag(o),
                Op::Write(o, v) => mag(o) + (v > 1) as usize,
                Op::Access(a, b) => mag(a) + mag(b),
            };
        }
        s + self.alloc.guard as usize * 50 + self.alloc.reuse as usize * 10 + (self.width as usize / 8)
    }

    pub fn shrink_candidates(&self) -> Vec<TapeCheck> {
        let mut out = Vec::new();
        for (i, o) in self.ops.iter().enumerate() {
            let mut alts: Vec<Op> = Vec::new();
            let half = |x: i64| x / 2;
            match *o {
                Op::Mov(x) if x != 0 => alts.extend([Op::Mov(half(x)), Op::Mov(x - x.signum())]),
                Op::Read(x) if x != 0 => alts.extend([Op::Read(0), Op::Read(half(x)), Op::Read(x - x.signum())]),
                Op::Write(x, v) => {
                    if x != 0 {
                        alts.extend([Op::Write(0, v), Op::Write(half(x), v), Op::Write(x - x.signum(), v)]);
                    }
                    if v > 1 {
                        alts.push(Op::Write(x, 1));
                    }
                }
                Op::Access(a, b) => {
                    if a != 0 {
                        alts.extend([Op::Access(half(a), b), Op::Access(a - a.signum(), b)]);
                    }
                    if b != 0 {
                        alts.extend([Op::Access(a, half(b)), Op::Access(a, b - b.signum())]);
                    }
                }
                Op::Check(x) if x != 0 => alts.extend([Op::Check(half(x)), Op::Check(x - x.signum())]),
                Op::PtrRel(x) if x != 0 => alts.extend([Op::PtrRel(half(x)), Op::Mov(x)]),
                Op::CheckPtr(x) if x != 0 => alts.extend([Op::CheckPtr(half(x)), Op::Check(x)]),
                _ => {}
            }
            for a in alts {
                let mut n = self.clone();
                n.ops[i] = a;
                out.push(n);
            }
        }
        if self.alloc.reuse {
            let mut n = self.clone();
            n.alloc.reuse = false;
            out.push(n);
        }
        if self.alloc.guard {
            let mut n = self.clone();
            n.alloc = AllocPlan::OFF;
            out.push(n);
        }
        if self.width != 8 {
            let mut n = self.clone();
            n.width = 8;
            out.push(n);
        }
        out
    }
}

struct Model {
    cells: BTreeMap<i64, u64>,
    p: i64,
}

fn mask(width: u32) -> u64 {
    if width == 64 {
        u64::MAX
    } else {
        (1u64 << width) - 1
    }
}

fn run_history<C: CellType>(c: &TapeCheck, v: &mut Verdict) {
    let m = mask(c.width);
    let mut model = Model { cells: BTreeMap::new(), p: 0 };
    let g = c.alloc.guard;
    let mut mem = Memory::<C>::new();
    let mut grew_then_read_back = false;
    let mut growths = 0u64;
    let mut touched: Vec<i64> = Vec::new();
    for (i, op) in c.ops.iter().enumerate() {
        let req_before = galloc::requests();
        match *op {
            Op::Mov(o) => {
                galloc::with_zone(g, || mem.mov(o as isize));
                model.p += o;
            }
            Op::Read(o) => {
                let got = galloc::with_zone(g, || mem.read(o as isize)).into_u64();
                let want = model.cells.get(&(model.p + o)).copied().unwrap_or(0);
                if c.alloc.guard && galloc::requests() != req_before {
                    v.fail("read-allocated", i, format!("op {}: read({}) made the allocator serve a request", i, o));
                    return;
                }
                if got != want {
                    v.fail("wrong-read", i, format!("op {}: read({}) at logical cell {} returned {} but the last value written there is {}", i, o, model.p + o, got, want));
                    return;
                }
                if want != 0 && growths > 0 {
                    grew_then_read_back = true;
                }
            }
            Op::Write(o, val) => {
                galloc::with_zone(g, || mem.write(o as isize, C::from_u64(val & m)));
                model.cells.insert(model.p + o, val & m);
                touched.push(model.p + o);
            }
            Op::Access(s, e) => {
                galloc::with_zone(g, || mem.make_accessible(s as isize, e as isize));
                if s < e {
                    let lo = galloc::with_zone(g, || mem.check(s as isize));
                    let hi = galloc::with_zone(g, || mem.check((e - 1) as isize));
                    if !lo || !hi {
                        v.fail("not-accessible", i, format!("op {}: after make_accessible({}, {}) check({})={} check({})={}", i, s, e, s, lo, e - 1, hi));
                        return;
                    }
                }
            }
            Op::Check(o) => {
                let ok = galloc::with_zone(g, || mem.check(o as isize));
                if c.alloc.guard && galloc::requests() != req_before {
                    v.fail("check-allocated", i, format!("op {}: check({}) made the allocator serve a request", i, o));
                    return;
                }
                if ok {
                    // an accessible cell can be written without any allocation
                    let r0 = galloc::requests();
                    let cur = galloc::with_zone(g, || mem.read(o as isize));
                    galloc::with_zone(g, || mem.write(o as isize, cur));
                    if c.alloc.guard && galloc::requests() != r0 {
                        v.fail("accessible-write-allocated", i, format!("op {}: check({}) said accessible but writing there allocated", i, o));
                        return;
                    }
                }
            }
            Op::PtrRel(k) => {
                let p = mem.current_ptr().wrapping_offset(k as isize);
                galloc::with_zone(g, || mem.set_current_ptr(p));
                model.p += k;
            }
            Op::CheckPtr(o) => {
                let p = mem.current_ptr().wrapping_offset(o as isize);
                let a = galloc::with_zone(g, || mem.check_ptr(p));
                let b = galloc::with_zone(g, || mem.check(o as isize));
                if a != b {
                    v.fail("check-ptr-disagrees", i, format!("op {}: check_ptr(current+{}) = {} but check({}) = {}", i, o, a, o, b));
                    return;
                }
            }
        }
        if c.alloc.guard && galloc::requests() != req_before {
            growths += 1;
        }
    }
    // final sweep over everything ever written, +-3
    touched.sort();
    touched.dedup();
    for &cell in &touched {
        for d in -3..=3i64 {
            let idx = cell + d;
            let got = galloc::with_zone(g, || mem.read((idx - model.p) as isize)).into_u64();
            let want = model.cells.get(&idx).copied().unwrap_or(0);
            if got != want {
                v.fail("wrong-read", c.ops.len(), format!("final sweep: logical cell {} reads {} but should be {}", idx, got, want));
                return;
            }
        }
    }
    v.nontrivial = growths >= 1 && grew_then_read_back;
    v.add("growths", growths);
    galloc::with_zone(g, || drop(mem));
}

pub fn evaluate(c: &TapeCheck) -> Verdict {
    let mut v = Verdict::default();
    if c.alloc.guard {
        galloc::reset();
        galloc::set_plan(c.alloc.seed, c.alloc.reuse, None);
    }
    match c.width {
        8 => run_history::<u8>(c, &mut v),
        16 => run_history::<u16>(c, &mut v),
        32 => run_history::<u32>(c, &mut v),
        _ => run_history::<u64>(c, &mut v),
    }
    if c.alloc.guard {
        let st = galloc::stats();
        v.add("fired_alloc_guarded_requests", st.requests);
        v.add("fired_alloc_placed_flush_right", st.right_placed);
        v.add("fired_alloc_placed_flush_left", st.left_placed);
        v.add("fired_alloc_same_address_reuse", st.reused);
        if st.canary_hits > 0 {
            v.fail("canary", 0, "bytes next to a tape block were overwritten".into());
        }
        if st.size_mismatch > 0 {
            v.fail("dealloc-layout", 0, "a tape block was freed with a different layout than it was requested with".into());
        }
        if st.leaked_at_reset > 0 {
            v.add("leaked_blocks_previous_run", st.leaked_at_reset);
        }
        let live = galloc::live_blocks();
        if !live.is_empty() {
            v.fail("leak", 0, format!("{} tape block(s) still allocated after the tape was dropped", live.len()));
        }
    }
    v.executions = 1;
    v
}

/// Generate a history. A live tape is driven alongside so that offsets can be aimed
/// at the current allocation edges (found with `check`).
pub fn generate(rng: &mut Rng, prop: &str) -> TapeCheck {
    let width = *rng.pick(&crate::props::WIDTHS);
    let n = match rng.below(4) {
        0 => rng.urange(1, 6),
        1 | 2 => rng.urange(4, 24),
        _ => rng.urange(16, 60),
    };
    let far_max: i64 = if rng.chance(1, 16) { 3_000_000 } else { *rng.pick(&[40i64, 300, 5000, 200_000, 1_000_000]) };
    let mut live = Memory::<u8>::new();
    let mut ops = Vec::new();
    let mut pos = 0i64;
    let edges = |mem: &mut Memory<u8>| -> Option<(i64, i64)> {
        if !mem.check(0) {
            // pointer outside the allocation (or nothing allocated): look around a little
            return None;
        }
        let mut lo = 0i64;
        let mut step = 1i64;
        while step < (1 << 24) && mem.check((lo - step) as isize) {
            lo -= step;
            step *= 2;
        }
        while step > 1 {
            step /= 2;
            if mem.check((lo - step) as isize) {
                lo -= step;
            }
        }
        let mut hi = 0i64;
        let mut step = 1i64;
        while step < (1 << 24) && mem.check((hi + step) as isize) {
            hi += step;
            step *= 2;
        }
        while step > 1 {
            step /= 2;
            if mem.check((hi + step) as isize) {
                hi += step;
            }
        }
        Some((lo, hi))
    };
    for _ in 0..n {
        // edges reported by the implementation under test are only used if they are sane,
        // so that a broken `check` cannot make the generator ask for absurd allocations
        let e = edges(&mut live).filter(|&(lo, hi)| lo >= -6_000_000 && hi <= 6_000_000 && lo <= 0 && hi >= 0);
        let mut off = |rng: &mut Rng| -> i64 {
            match (rng.below(10), e) {
                (0..=2, _) => rng.range(-3, 3),
                (3..=5, Some((lo, hi))) => {
                    if rng.coin() {
                        lo + rng.range(-2, 2)
                    } else {
                        hi + rng.range(-2, 2)
                    }
                }
                (6, _) => rng.range(-far_max, far_max),
                (7, _) => {
                    let x = rng.range(1, far_max);
                    if rng.coin() {
                        x
                    } else {
                        -x
                    }
                }
                _ => rng.range(-40, 40),
            }
        };
        let op = match rng.below(16) {
            0..=2 => Op::Mov(off(rng)),
            3..=5 => Op::Read(off(rng)),
            6..=9 => Op::Write(off(rng), 1 + rng.below(255)),
            10 | 11 => {
                let a = off(rng);
                let b = off(rng);
                match rng.below(4) {
                    0 => Op::Access(a.min(b), a.max(b) + 1), // may extend below and above at once
                    1 => Op::Access(a, a + rng.range(0, 4)),
                    2 => Op::Access(-rng.range(0, far_max / 2 + 1), rng.range(1, far_max / 2 + 1)),
                    _ => Op::Access(a, b), // possibly empty or reversed
                }
            }
            12 => Op::Check(off(rng)),
            13 => Op::PtrRel(off(rng)),
            14 => Op::CheckPtr(off(rng)),
            _ => Op::Read(off(rng)),
        };
        // keep the logical pointer within +-4e6 cells (bounds stated in DESIGN.md)
        let op = match op {
            Op::Mov(o) if (pos + o).abs() > 4_000_000 => Op::Mov(-o),
            Op::PtrRel(o) if (pos + o).abs() > 4_000_000 => Op::PtrRel(-o),
            x => x,
        };
        if let Op::Mov(o) | Op::PtrRel(o) = op {
            pos += o;
        }
        // drive the live tape so that the next offsets aim at real edges
        match op {
            Op::Mov(o) | Op::PtrRel(o) => live.mov(o as isize),
            Op::Write(o, v) => live.write(o as isize, v as u8),
            Op::Access(s, e) => {
                // keep generation-time allocations bounded
                if (e - s).abs() <= 4_000_000 {
                    live.make_accessible(s as isize, e as isize)
                }
            }
            _ => {}
        }
        ops.push(op);
    }
    let alloc = if rng.chance(7, 8) {
        AllocPlan { guard: true, seed: rng.next(), reuse: rng.chance(1, 3), fail_at: None }
    } else {
        AllocPlan::OFF
    };
    TapeCheck { prop: prop.to_string(), width, ops, alloc }
}
