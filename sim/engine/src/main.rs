//! `sim` — deterministic simulation with fault injection for rolandbernard/hpbf.
//! See /verif/DESIGN.md. One binary, several roles (parent, worker, judge server).

mod bcheck;
mod case;
mod check;
mod cli;
mod compile;
mod dispatch;
mod exec;
mod galloc;
mod gen;
mod isolate;
mod minimize;
mod parent;
mod peer;
mod props;
mod refmodel;
mod rng;
mod svec;
mod tape;
mod worker;

use std::path::PathBuf;
use std::time::Instant;

use serde_json::{json, Value};

use parent::{harness_error, ParentArgs};
use props::Tier;

#[cfg(not(miri))]
#[global_allocator]
static GLOBAL: galloc::GuardAlloc = galloc::GuardAlloc;

fn arg_after(args: &[String], flag: &str) -> Option<String> {
    args.iter().position(|a| a == flag).and_then(|i| args.get(i + 1).cloned())
}

struct PropCfg {
    level: &'static str,
    quick_count: u64,
    thorough_count: u64,
    both_profiles: bool,
    rule: &'static str,
}

fn prop_cfg(prop: &str) -> Option<PropCfg> {
    let equiv_rule = "one run = one generated (program, width, reactive peer) scenario checked under every level of the backend; a case is non-trivial iff its canonical run executes >=1 loop iteration and >=1 I/O event; distinct = distinct hash of (program, configuration, peer, fault plan, profile)";
    Some(match prop {
        "C01" => PropCfg { level: "exploration", quick_count: 100000, thorough_count: 1500000, both_profiles: false, rule: equiv_rule },
        "C02" => PropCfg { level: "exploration", quick_count: 40000, thorough_count: 800000, both_profiles: true, rule: equiv_rule },
        "C03" => PropCfg { level: "exploration", quick_count: 100000, thorough_count: 1500000, both_profiles: false, rule: equiv_rule },
        "C04" => PropCfg { level: "exploration", quick_count: 100000, thorough_count: 2000000, both_profiles: false, rule: equiv_rule },
        "C05" => PropCfg { level: "exploration", quick_count: 40000, thorough_count: 600000, both_profiles: false, rule: "one run = one program whose canonical run provably repeats a state (or halts), checked on every backend x level with a budget ladder and sink closings; non-trivial iff the reference proved a cycle (or halted with >=1 loop iteration and >=1 event)" },
        "C06" => PropCfg { level: "exploration", quick_count: 40000, thorough_count: 600000, both_profiles: false, rule: "as the equivalence checks, but every heap block made during execution sits flush against a PROT_NONE page (side by coin), with poison, canaries, optional same-address reuse and random legal pre-growth; non-trivial iff canonical run has >=1 loop iteration and >=1 I/O event" },
        "C07" => PropCfg { level: "exploration", quick_count: 4000, thorough_count: 120000, both_profiles: true, rule: "one run = one scenario x all four backends x a ladder of ~35 budgets (0..3, two random <33, geometric to 2^20, neighbourhood of the canonical back-edge count, 2^62 and 2^63-1 for halting programs); non-trivial iff canonical run has >=1 loop iteration and >=1 I/O event" },
        "C08" => PropCfg { level: "fault_enumeration", quick_count: 10000, thorough_count: 150000, both_profiles: false, rule: "one run = one scenario with a halting (or printing-divergent) canonical history; every single-fault plan is enumerated when the history has <=256 events (each input request failing, each output refused as Ok(0) and as Err, no reader, no writer), sampled otherwise, on all backends x 2 levels; non-trivial iff canonical run has >=1 loop iteration and >=1 I/O event" },
        "C09" => PropCfg { level: "exploration", quick_count: 25000, thorough_count: 1500000, both_profiles: false, rule: "one run = 8 generated histories of 1-60 calls on runtime::Memory (mov, read, write, make_accessible incl. two-sided, empty and reversed ranges, check, set_current_ptr/current_ptr, check_ptr) at a random width, offsets aimed near 0, at the live allocation edges +-2 (found by probing with check), beyond an edge by a fraction of the current size (also two-sided), far (+-1e6) and, in one history out of six, on far excursions of 2^31..2^63 cells (read, check, mov there and back; cells out there are never written), 7 of 8 under the guard allocator; a history is non-trivial iff the tape grew at least once and a non-zero value was read back after a growth" },
        "C10" => PropCfg { level: "exploration", quick_count: 100000, thorough_count: 1500000, both_profiles: false, rule: "one run = one halting scenario executed with execute_unsafe on bcint and basejit at levels 0..3 inside a region pre-grown to excursion+program length+1 on each side and rounded to whole pages so that PROT_NONE pages touch both ends; non-trivial iff canonical run has >=1 loop iteration and >=1 I/O event" },
        "C11" => PropCfg { level: "exploration", quick_count: 20000, thorough_count: 600000, both_profiles: false, rule: "one run = one generated program x levels 0..3 x generator settings (2 registers with fusion | 11 registers without); structural invariants are checked exactly on every instruction of the generated bytecode; the checked bytecode machine then executes it against 3 peers with every register temporary not declared live across a non-branch instruction destroyed at that instruction; non-trivial iff the canonical run of some peer has >=1 loop iteration and >=1 I/O event; branch-arm coverage is reported" },
        "C13" => PropCfg { level: "exploration", quick_count: 7000, thorough_count: 400000, both_profiles: true, rule: "one run = 4 (program, width, level) triples (families: expression-explosion shapes, nesting 20-200, pressure, raw, corpus, structured); each is built by all four executors (+4 machine-code variants) under catch_unwind in both build profiles, compiled under 4 hash seeds of the bytecode generator's hash containers with 0-3 unrelated programs compiled in between, artefact digests compared across seeds, across processes and across profiles, one check in six is a growth pair (the same construction at size parameter k and 2k: allocator traffic of compilation may grow at most 32-fold), and each executor is run 3 times on fresh contexts at two budgets; non-trivial iff the program has a loop" },
        "C16" => PropCfg { level: "exploration", quick_count: 6000, thorough_count: 200000, both_profiles: false, rule: "one run = 8 generated process scenarios for the real hpbf binary: 1-3 code fragments as bare arguments or -f files in random order, interleaved with width/backend/level flags (0-2 of each, last wins), optionally a print option, --limit (small, huge, or not a number), --static, --time, -h; file faults (missing, directory, non-UTF-8, empty, a multi-byte character split over two files), named pipes as -f sources, multi-byte comment characters straddling 4 KiB..128 KiB offsets, unbalanced source, trailing -f, --static under an address-space limit of 128-400 MiB (abort before running expected); stdin is a generated byte string in a regular file; non-trivial iff the scenario executes a program whose canonical run has >=1 loop iteration and >=1 I/O event" },
        "C17" => PropCfg { level: "fault_enumeration", quick_count: 8000, thorough_count: 200000, both_profiles: false, rule: "one run = one halting roaming scenario x 4 backends; the fault-free run under the guard allocator counts the in-zone allocation requests N (tape growths, bcint context, threaded-code and other Vecs) and then request k is made to return null for every k in 1..=N (24 sampled if N>24), each in a forked child; one scenario in six starts on a tape of 1e5-4e5 cells; one in three adds a far-start check (pointer parked 2^44..2^62 cells away, tiny writing program on each backend, abort or panic expected, a death after the caught panic or an unknown free is the violation); every second run adds a tape history containing a request no allocator can serve (forked child, catch_unwind: abort, or panic with the tape unchanged); non-trivial iff the failure fired" },
        "C18" => PropCfg { level: "exploration", quick_count: 300000, thorough_count: 2000000, both_profiles: false, rule: "one run = 16 generated histories of 1-40 operations (constructors, push, extend, clear, retain, retain_mut with mutation, dedup, sort, clone, ==, cmp, hash, index, iter, iter_mut, by-value iteration abandoned after j items, drop) over up to 3 vectors with inline capacity 1 or 2, now and then 126..513 elements long, element type u32, a drop-tracked type (with one value that is not equal to itself) or a zero-sized type with a destructor; out-of-range indexing must panic, retain with a predicate that panics at its k-th call must never drop twice, equal vectors in either representation must hash equally under std SipHash and hpbf's FastHasher; slice view compared with a Vec model after every operation, drop ledger at the end; non-trivial iff some vector crossed the inline/heap boundary and at least one removing operation ran" },
        _ => return None,
    })
}

fn main() {
    let args: Vec<String> = std::env::args().collect();
    let cmd = args.get(1).map(|s| s.as_str()).unwrap_or("help");
    // A backtrace on abort would be symbolised inside the guard zone (thousands of guarded
    // allocations, seconds of work) and tell us nothing; the harness never needs one.
    std::env::set_var("RUST_BACKTRACE", "0");
    match cmd {
        "worker" => {
            worker::disable_aslr_and_reexec();
            let tier = if args[3] == "thorough" { Tier::Thorough } else { Tier::Quick };
            let a = worker::WorkerArgs {
                prop: args[2].clone(),
                tier,
                seed: args[4].parse().unwrap_or(1),
                k: args[5].parse().unwrap_or(0),
                w: args[6].parse().unwrap_or(1),
                count: args[7].parse().unwrap_or(0),
                start: args[8].parse().unwrap_or(0),
                deadline_s: args[9].parse().unwrap_or(1e9),
                only: arg_after(&args, "--only").and_then(|x| x.parse().ok()),
                trace: args.iter().any(|a| a == "--trace"),
                until: arg_after(&args, "--until").and_then(|x| x.parse().ok()),
            };
            worker::worker_main(a);
        }
        "judge-server" => {
            worker::disable_aslr_and_reexec();
            worker::judge_server();
        }
        "run" => cmd_run(&args),
        "replay" => cmd_replay(&args),
        "selftest" => cmd_selftest(&args),
        "inproc" => cmd_inproc(&args),
        "jitbc" => {
            // debugging aid: the bytecode the JIT really uses (11 registers, no fusion)
            let prog = &args[2];
            let level: u32 = args.get(3).and_then(|s| s.parse().ok()).unwrap_or(1);
            let p = hpbf::ir::Program::<u8>::parse(prog).unwrap().optimize(level);
            println!("{:?}", hpbf::bc::CodeGen::translate(&p, 11, false));
        }
        "gen" => {
            let prop = &args[2];
            let seed: u64 = args[3].parse().unwrap_or(1);
            let i: u64 = args[4].parse().unwrap_or(0);
            let env = props::GenEnv::new(Tier::Quick);
            let mut rng = rng::Rng::new(rng::run_seed(seed, prop, i));
            let cs = dispatch::make(prop, &mut rng, &env);
            println!("family {}", cs.family);
            for c in cs.items {
                println!("{}", c.to_json());
            }
        }
        _ => {
            eprintln!("usage: sim run <PROP> <quick|thorough> [--seed N] [--count N] [--workers N] [--dbg-bin PATH] [--verif DIR]");
            eprintln!("       sim replay <file> [--dbg-bin PATH]");
            eprintln!("       sim selftest");
            std::process::exit(2);
        }
    }
}

fn self_bin() -> PathBuf {
    std::env::current_exe().unwrap_or_else(|_| harness_error("cannot find own executable"))
}

fn cmd_run(args: &[String]) {
    let prop = args.get(2).cloned().unwrap_or_default();
    let tier = if args.get(3).map(|s| s.as_str()) == Some("thorough") { Tier::Thorough } else { Tier::Quick };
    let cfg = prop_cfg(&prop).unwrap_or_else(|| harness_error(&format!("unknown property {}", prop)));
    let seed: u64 = arg_after(args, "--seed")
        .or_else(|| std::env::var("VERIF_SEED").ok())
        .and_then(|s| s.parse().ok())
        .unwrap_or(1);
    let count: u64 = arg_after(args, "--count").and_then(|s| s.parse().ok()).unwrap_or(match tier {
        Tier::Quick => cfg.quick_count,
        Tier::Thorough => cfg.thorough_count,
    });
    let workers: u64 = arg_after(args, "--workers").and_then(|s| s.parse().ok()).unwrap_or(16);
    let verif_dir = PathBuf::from(arg_after(args, "--verif").unwrap_or_else(|| "/verif".to_string()));
    let deadline_s: f64 = arg_after(args, "--deadline").and_then(|s| s.parse().ok()).unwrap_or(match tier {
        Tier::Quick => 150.0,
        Tier::Thorough => 2400.0,
    });
    let dbg_bin = arg_after(args, "--dbg-bin").map(PathBuf::from);
    let mut bins = Vec::new();
    match (&dbg_bin, cfg.both_profiles) {
        (Some(d), true) => {
            let h = (workers / 2).max(1);
            bins.push(("rel".to_string(), self_bin(), h));
            bins.push(("dbg".to_string(), d.clone(), h));
        }
        (None, true) => harness_error("this property is checked under both build profiles: pass --dbg-bin"),
        _ => bins.push(("rel".to_string(), self_bin(), workers)),
    }
    let a = ParentArgs {
        prop: prop.clone(),
        tier,
        seed,
        count,
        deadline_s,
        bins,
        verif_dir,
        level: cfg.level.to_string(),
        hang_s: 60.0,
        write_evidence: !args.iter().any(|a| a == "--no-evidence"),
        extra_assumptions: vec![],
        rule: cfg.rule.to_string(),
        stubs: match prop.as_str() {
            "C09" => json!({
                "real": ["runtime::Memory (mov, read, write, make_accessible, check, current_ptr, set_current_ptr, check_ptr, Drop)"],
                "stub": ["map model of the tape", "heap allocator around each Memory call (guard arena: placement, poison, same-address reuse)"],
            }),
            "C11" => json!({
                "real": ["ir::Program::parse", "opt (Program::optimize)", "bc::CodeGen::translate with the two settings the executors use"],
                "stub": ["checked bytecode machine (executes the bytecode with definedness and liveness shadow state; NOT hpbf's executors)", "input peer", "canonical semantics (reference model, reported as a third opinion only)"],
            }),
            "C13" => json!({
                "real": ["Executor::create of all four executors", "BaseJitCompiler::print_mc (4 variants)", "ir/bc Debug rendering", "execute_limited / execute of all four executors", "hash containers of bc.rs through the H1 seam (keyed SipHash instead of OS-random keys)"],
                "stub": ["input peer and output sink", "allocator in counting mode (cost measure only)"],
            }),
            "C16" => json!({
                "real": ["the hpbf binary (src/bin/hpbf.rs) as a child process", "the operating system: argv, files, stdin as a regular file, stdout/stderr, exit status", "the library run in-process for limited runs and print options"],
                "stub": ["command-line model (flag table written from the help text)", "canonical semantics (reference model R0/R1)"],
            }),
            "C18" => json!({
                "real": ["/repo/src/smallvec.rs compiled into the harness by path (SmallVec, SmallVecIntoIter, all trait impls)"],
                "stub": ["Vec model", "drop ledger (element type with a destructor)"],
            }),
            _ => json!({
                "real": ["ir::Program::parse", "opt (Program::optimize)", "bc::CodeGen::translate", "InplaceInterpreter", "IrInterpreter", "BcInterpreter (threaded code)", "BaseJitCompiler (machine code on the real CPU)", "runtime::Context / Memory"],
                "stub": ["input peer and output sink (SimIn/SimOut)", "heap allocator inside execution zones (guard arena)", "canonical semantics (reference model R0/R1)"],
            }),
        },
    };
    let t0 = Instant::now();
    println!("seed={} property={} tier={:?} runs={} workers={:?}", seed, prop, tier, count, a.bins.iter().map(|b| (b.0.as_str(), b.2)).collect::<Vec<_>>());
    let regress = parent::replay_regressions(&a);
    let mut sum = parent::drive(&a);
    sum.found.extend(regress.0);
    *sum.stats.entry("regression_replays".to_string()).or_insert(0) += regress.1;
    let drive_s = t0.elapsed().as_secs_f64();
    let rep = parent::triage(&a, &mut sum);
    println!("timing: drive {:.1}s triage {:.1}s", drive_s, t0.elapsed().as_secs_f64() - drive_s);
    let wall = t0.elapsed().as_secs_f64();
    // sweep temp dirs of CLI scenarios left behind by workers that were killed
    if let Ok(rd) = std::fs::read_dir(std::env::temp_dir()) {
        let prefix = format!("simcli-{}-", std::process::id());
        for e in rd.flatten() {
            if e.file_name().to_string_lossy().starts_with(&prefix) {
                let _ = std::fs::remove_dir_all(e.path());
            }
        }
    }
    for l in &rep.lines {
        println!("{}", l);
    }
    println!(
        "property={} runs={} checks={} executions={} distinct_nontrivial={} violations={} known={} wall_s={:.1}",
        prop,
        sum.runs,
        sum.checks,
        sum.execs,
        sum.nontrivial.len(),
        rep.violations,
        rep.known,
        wall
    );
    if args.iter().any(|a| a == "--print-digests") {
        for ((p, i), d) in &sum.digests {
            println!("DIGEST {} {} {}", p, i, d);
        }
    }
    if a.write_evidence {
        parent::write_evidence(&a, &sum, &rep, wall, true);
    }
    if sum.runs == 0 {
        harness_error("no run completed");
    }
    std::process::exit(if rep.violations > 0 { 1 } else { 0 });
}

fn cmd_replay(args: &[String]) {
    let path = args.get(2).cloned().unwrap_or_else(|| harness_error("replay: need a file"));
    let text = std::fs::read_to_string(&path).unwrap_or_else(|e| harness_error(&format!("cannot read {}: {}", path, e)));
    let v: Value = serde_json::from_str(&text).unwrap_or_else(|e| harness_error(&format!("bad replay file: {}", e)));
    let profile = v.get("profile").and_then(|x| x.as_str()).unwrap_or("rel");
    let bin = if profile == "dbg" {
        PathBuf::from(arg_after(args, "--dbg-bin").unwrap_or_else(|| harness_error("replay of a dbg-profile case needs --dbg-bin")))
    } else {
        self_bin()
    };
    if let Some(seg) = v.get("worker_segment") {
        let prop = v.get("property").and_then(|x| x.as_str()).unwrap_or("?").to_string();
        let g = |k: &str| seg.get(k).and_then(|x| x.as_u64()).unwrap_or(0);
        let tier = if seg.get("tier").and_then(|x| x.as_str()) == Some("thorough") { Tier::Thorough } else { Tier::Quick };
        let died = parent::run_segment(&bin, &prop, tier, g("seed"), g("k"), g("w"), g("start"), g("until"), 10.0);
        match died {
            Some(how) => {
                println!("replay: worker segment died again: {}", how);
                println!("VIOLATION property={} replay={}", prop, path);
                std::process::exit(1);
            }
            None => {
                println!("replay: the worker segment completes on this tree");
                std::process::exit(0);
            }
        }
    }
    let check = v.get("check").cloned().unwrap_or(Value::Null);
    let want = v.get("class").and_then(|x| x.as_str()).unwrap_or("?").to_string();
    let prop = v.get("property").and_then(|x| x.as_str()).unwrap_or("?").to_string();
    let mut j = parent::Judge::new(&bin, 60.0);
    let (class, at, detail) = j.eval(&check);
    println!("replay: property={} expected class={} at={}; this run: class={} at={} {}", prop, want, v.get("at").and_then(|x| x.as_u64()).unwrap_or(0), class, at, detail);
    if class.starts_with("harness-") {
        std::process::exit(2);
    }
    if class == "ok" {
        println!("replay: the check passes on this tree");
        std::process::exit(0);
    }
    println!("VIOLATION property={} replay={}", prop, path);
    std::process::exit(1);
}

fn cmd_selftest(args: &[String]) {
    // R1 (accelerated) against R0 on generated programs; the peer and generators are deterministic.
    let n: u64 = args.get(2).and_then(|s| s.parse().ok()).unwrap_or(20_000);
    let env = props::GenEnv::new(Tier::Quick);
    let mut compared = 0;
    let mut accelerated = 0;
    for i in 0..n {
        let mut rng = rng::Rng::new(rng::run_seed(7, "selftest", i));
        let fam = *rng.pick(&[gen::Family::Raw, gen::Family::Corpus, gen::Family::Structured, gen::Family::Roamer, gen::Family::Divergent, gen::Family::Pressure]);
        let width = *rng.pick(&props::WIDTHS);
        let p = gen::program(&mut rng, fam, width, &env.corpus, false);
        let peer = peer::Peer::generate(&mut rng);
        let lim = |acc| refmodel::Limits { max_steps: 300_000, max_events: 1 << 16, min_events_on_cycle: 0, accelerate: acc, mute_output: false };
        let r0 = refmodel::run(&p, width, &peer, lim(false));
        let r1 = refmodel::run(&p, width, &peer, lim(true));
        if r0.status == refmodel::Status::Halted {
            compared += 1;
            if r1.accelerated > 0 {
                accelerated += 1;
            }
            if r1.status != r0.status || r1.events != r0.events || r1.lo > r0.lo || r1.hi < r0.hi || r1.canon_steps != r0.steps {
                println!("SELFTEST-FAIL R0/R1 disagree on {:?} width {} peer {:?}: r0 {:?} {} ev {} steps lo{} hi{}; r1 {:?} {} ev {} canon lo{} hi{}", p, width, peer, r0.status, r0.events.len(), r0.steps, r0.lo, r0.hi, r1.status, r1.events.len(), r1.canon_steps, r1.lo, r1.hi);
                std::process::exit(2);
            }
        } else if let (refmodel::Status::Cycle { .. }, refmodel::Status::Halted) = (r0.status, r1.status) {
            println!("SELFTEST-FAIL R0 proves a cycle but R1 halts on {:?}", p);
            std::process::exit(2);
        }
    }
    println!("selftest ok: {} programs, {} halting compared R0==R1, {} of them used acceleration", n, compared, accelerated);
}

/// Run checks in this very process (no workers, no signal handlers, no guard zone, no JIT):
/// the mode used under Miri, which is itself a deterministic simulator of the allocator
/// and of Rust's abstract machine. `sim inproc <PROP> <seed> <first> <count>`
fn cmd_inproc(args: &[String]) {
    let prop = args.get(2).cloned().unwrap_or_default();
    let seed: u64 = args.get(3).and_then(|s| s.parse().ok()).unwrap_or(1);
    let first: u64 = args.get(4).and_then(|s| s.parse().ok()).unwrap_or(0);
    let count: u64 = args.get(5).and_then(|s| s.parse().ok()).unwrap_or(10);
    let env = props::GenEnv::new(Tier::Quick);
    let mut n = 0u64;
    let mut execs = 0u64;
    for i in first..first + count {
        let mut rng = rng::Rng::new(rng::run_seed(seed, &prop, i));
        let cs = dispatch::make(&prop, &mut rng, &env);
        for c in cs.items {
            let c = c.for_inproc();
            if let Some(c) = c {
                println!("CHECK {} {}", i, c.to_json());
                let v = dispatch::evaluate(&c);
                n += 1;
                execs += v.executions;
                if let Some(class) = v.class {
                    println!("INPROC-VIOLATION property={} run={} class={} detail={}", prop, i, class, v.detail);
                    std::process::exit(1);
                }
            }
        }
    }
    println!("inproc ok: property={} runs {}..{} checks={} executions={}", prop, first, first + count, n, execs);
}
