//! Worker side of the process protocol. A worker runs the run indices
//! `i ≡ k (mod W)`, prints `B <i>` before and `E <i> <json>` after each run, and may
//! die by signal at any moment (that is a result, attributed to the last `B`).

use std::collections::BTreeMap;
use std::io::{BufRead, Write};
use std::sync::Mutex;

use serde_json::{json, Value};

use crate::check::{self, Check};
use crate::galloc;
use crate::props::{self, GenEnv, Tier};
use crate::rng::{fnv, run_seed, Rng};

static PANIC_LOC: Mutex<String> = Mutex::new(String::new());

pub fn install_panic_hook() {
    std::panic::set_hook(Box::new(|info| {
        galloc::suspend(|| {
            let loc = info.location().map(|l| format!("{}:{}", l.file(), l.line())).unwrap_or_default();
            if let Ok(mut g) = PANIC_LOC.lock() {
                *g = loc;
            }
        })
    }));
}

pub fn last_panic_location() -> String {
    PANIC_LOC.lock().map(|g| g.clone()).unwrap_or_default()
}

fn write_num(buf: &mut [u8], mut pos: usize, mut n: usize, hex: bool) -> usize {
    let base = if hex { 16 } else { 10 };
    let mut tmp = [0u8; 24];
    let mut k = 0;
    if n == 0 {
        tmp[0] = b'0';
        k = 1;
    }
    while n > 0 {
        let d = (n % base) as u8;
        tmp[k] = if d < 10 { b'0' + d } else { b'a' + d - 10 };
        n /= base;
        k += 1;
    }
    while k > 0 {
        k -= 1;
        buf[pos] = tmp[k];
        pos += 1;
    }
    pos
}

extern "C" fn on_fatal_signal(sig: libc::c_int, info: *mut libc::siginfo_t, ctx: *mut libc::c_void) {
    // async-signal-safe: only write(2) and _exit(2)
    unsafe {
        let addr = if sig == libc::SIGSEGV || sig == libc::SIGBUS { (*info).si_addr() as usize } else { 0 };
        let (class, blk, size) = galloc::classify(addr);
        let mut buf = [0u8; 128];
        let head: &[u8] = match sig {
            libc::SIGSEGV => b"\nSIG SEGV ",
            libc::SIGBUS => b"\nSIG BUS ",
            libc::SIGILL => b"\nSIG ILL ",
            libc::SIGFPE => b"\nSIG FPE ",
            libc::SIGABRT => b"\nSIG ABRT ",
            _ => b"\nSIG OTHER ",
        };
        let mut p = 0;
        buf[..head.len()].copy_from_slice(head);
        p += head.len();
        p = write_num(&mut buf, p, addr, true);
        buf[p] = b' ';
        p += 1;
        p = write_num(&mut buf, p, class as usize, false);
        buf[p] = b' ';
        p += 1;
        p = write_num(&mut buf, p, blk, false);
        buf[p] = b' ';
        p += 1;
        p = write_num(&mut buf, p, size, false);
        // diagnostics (ignored by the parsers): instruction pointer and si_code
        let ip = if ctx.is_null() { 0 } else { (*(ctx as *mut libc::ucontext_t)).uc_mcontext.gregs[libc::REG_RIP as usize] as usize };
        for (tag, val, hex) in [(&b" ip="[..], ip, true), (&b" code="[..], (*info).si_code as usize & 0xffff, false)] {
            buf[p..p + tag.len()].copy_from_slice(tag);
            p += tag.len();
            p = write_num(&mut buf, p, val, hex);
        }
        buf[p] = b'\n';
        p += 1;
        libc::write(1, buf.as_ptr() as *const _, p);
        libc::_exit(70 + sig);
    }
}

pub fn install_signal_handlers() {
    unsafe {
        // alternate stack so that a stack overflow is reported too
        let size = 1 << 16;
        let stack = libc::mmap(
            std::ptr::null_mut(),
            size,
            libc::PROT_READ | libc::PROT_WRITE,
            libc::MAP_PRIVATE | libc::MAP_ANONYMOUS,
            -1,
            0,
        );
        let ss = libc::stack_t { ss_sp: stack, ss_flags: 0, ss_size: size };
        libc::sigaltstack(&ss, std::ptr::null_mut());
        for sig in [libc::SIGSEGV, libc::SIGBUS, libc::SIGILL, libc::SIGFPE, libc::SIGABRT] {
            let mut sa: libc::sigaction = std::mem::zeroed();
            sa.sa_sigaction = on_fatal_signal as usize;
            sa.sa_flags = libc::SA_SIGINFO | libc::SA_ONSTACK;
            libc::sigemptyset(&mut sa.sa_mask);
            libc::sigaction(sig, &sa, std::ptr::null_mut());
        }
    }
}

/// Best effort: switch address-space randomisation off and re-exec, so that even
/// pointer bits repeat. No verdict depends on an address; if refused we carry on.
pub fn disable_aslr_and_reexec() {
    unsafe {
        let cur = libc::personality(0xffff_ffff);
        if cur != -1 && (cur & libc::ADDR_NO_RANDOMIZE) == 0 && std::env::var_os("SIM_NO_REEXEC").is_none() {
            if libc::personality((cur | libc::ADDR_NO_RANDOMIZE) as libc::c_ulong) != -1 {
                use std::os::unix::process::CommandExt;
                let args: Vec<_> = std::env::args_os().collect();
                let err = std::process::Command::new("/proc/self/exe").args(&args[1..]).env("SIM_NO_REEXEC", "1").exec();
                let _ = err;
            }
        }
    }
}

pub fn aslr_is_off() -> bool {
    unsafe {
        let cur = libc::personality(0xffff_ffff);
        cur != -1 && (cur & libc::ADDR_NO_RANDOMIZE) != 0
    }
}

pub struct WorkerArgs {
    pub prop: String,
    pub tier: Tier,
    pub seed: u64,
    pub k: u64,
    pub w: u64,
    pub count: u64,
    pub start: u64,
    pub only: Option<u64>,
    pub trace: bool,
    pub deadline_s: f64,
    /// stop after the first run whose index is greater than this (segment replay)
    pub until: Option<u64>,
}

fn emit(line: &str) {
    let out = std::io::stdout();
    let mut l = out.lock();
    let _ = l.write_all(line.as_bytes());
    let _ = l.write_all(b"\n");
    let _ = l.flush();
}

pub fn check_hash(c: &Check) -> u64 {
    fnv(c.to_json().to_string().as_bytes())
}

/// Run one run index: returns the JSON for the `E` line.
pub fn run_index(a: &WorkerArgs, env: &GenEnv, i: u64) -> Value {
    let mut rng = Rng::new(run_seed(a.seed, &a.prop, i));
    let checks = crate::dispatch::make(&a.prop, &mut rng, env);
    let mut stats: BTreeMap<String, u64> = BTreeMap::new();
    let mut nontrivial = Vec::new();
    let mut violations = Vec::new();
    let mut execs = 0u64;
    let mut ref_steps = 0u64;
    let mut digest = 0u64;
    let mut artefacts: Vec<Value> = Vec::new();
    let n = checks.items.len();
    for (j, ch) in checks.items.iter().enumerate() {
        if a.trace {
            emit(&format!("C {}", ch.to_json()));
        }
        let v = crate::dispatch::evaluate(ch);
        execs += v.executions;
        ref_steps += v.ref_steps;
        for (k, x) in &v.stats {
            *stats.entry(k.clone()).or_insert(0) += x;
        }
        let h = fnv(ch.to_json().to_string().as_bytes());
        digest = crate::rng::mix64(digest ^ h ^ fnv(v.class.clone().unwrap_or_default().as_bytes()) ^ v.executions);
        if v.nontrivial {
            nontrivial.push(h);
        }
        if let Some(a) = &v.artefact {
            artefacts.push(json!([format!("{:016x}", h), a, ch.to_json()]));
        }
        if let Some(class) = &v.class {
            violations.push(json!({"check": ch.to_json(), "class": class, "at": v.at, "detail": v.detail, "index_in_run": j}));
        }
    }
    *stats.entry(format!("family_{}", checks.family)).or_insert(0) += 1;
    let sample = if i % 97 == 0 && n > 0 { checks.items[0].to_json() } else { Value::Null };
    json!({
        "checks": n,
        "execs": execs,
        "ref_steps": ref_steps,
        "nontrivial": nontrivial,
        "stats": stats,
        "violations": violations,
        "digest": format!("{:016x}", digest),
        "artefacts": artefacts,
        "sample": sample,
    })
}

pub fn worker_main(a: WorkerArgs) {
    // never outlive the parent
    unsafe {
        libc::prctl(libc::PR_SET_PDEATHSIG, libc::SIGKILL);
    }
    install_panic_hook();
    install_signal_handlers();
    let env = GenEnv::new(a.tier);
    let t0 = std::time::Instant::now();
    if let Some(i) = a.only {
        emit(&format!("B {}", i));
        let e = run_index(&a, &env, i);
        emit(&format!("E {} {}", i, e));
        emit("D");
        return;
    }
    let mut i = a.start;
    while i % a.w != a.k {
        i += 1;
    }
    while i < a.count {
        // wall-clock cap: decides only how many runs are made, never what a run does
        if t0.elapsed().as_secs_f64() > a.deadline_s {
            emit(&format!("T {}", i));
            break;
        }
        emit(&format!("B {}", i));
        let e = run_index(&a, &env, i);
        emit(&format!("E {} {}", i, e));
        if let Some(u) = a.until {
            if i > u {
                break;
            }
        }
        i += a.w;
    }
    emit("D");
}

/// Reads one check (JSON) per line on stdin, prints `V <class|ok> <at> <json detail>`.
pub fn judge_server() {
    unsafe {
        libc::prctl(libc::PR_SET_PDEATHSIG, libc::SIGKILL);
    }
    install_panic_hook();
    install_signal_handlers();
    let stdin = std::io::stdin();
    for line in stdin.lock().lines() {
        let line = match line {
            Ok(l) => l,
            Err(_) => break,
        };
        if line.trim().is_empty() {
            continue;
        }
        let v: Value = match serde_json::from_str(&line) {
            Ok(v) => v,
            Err(e) => {
                emit(&format!("X bad json: {}", e));
                continue;
            }
        };
        match crate::dispatch::AnyCheck::from_json(&v) {
            Some(ch) => {
                emit("B 0");
                let r = crate::dispatch::evaluate(&ch);
                let class = r.class.clone().unwrap_or_else(|| "ok".to_string());
                emit(&format!("V {} {} {}", class, r.at, json!({"detail": r.detail, "execs": r.executions, "nontrivial": r.nontrivial})));
            }
            None => emit("X cannot decode check"),
        }
    }
}

pub fn _unused(_: &check::Verdict, _: &props::GenEnv) {}
