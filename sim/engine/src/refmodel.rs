//! Reference models R0 (canonical Brainfuck, written from the property statement) and
//! R1 (R0 plus one acceleration rule for counted inner loops). Shares no code with hpbf.

use std::collections::BTreeMap;

use crate::peer::{Ev, Peer};
use crate::rng::mix64;

#[derive(Clone, Copy, Debug, PartialEq, Eq)]
pub enum Status {
    /// The program ran to its end.
    Halted,
    /// The step cap was reached: *unknown*, never a divergence.
    StepCap,
    /// A machine state recurred with no live input request in between: proof of
    /// divergence. `io_in_cycle` says whether the repeating segment performs I/O.
    Cycle { io_in_cycle: bool },
    /// Source is not bracket-balanced (generators never produce this; replay files might).
    Unbalanced,
}

#[derive(Clone, Debug)]
pub struct RefRun {
    pub status: Status,
    pub events: Vec<Ev>,
    /// `canon_steps` at the moment each event happened
    pub canon_at_event: Vec<u64>,
    /// canonical steps executed (one per command character; an accelerated loop counts 1)
    pub steps: u64,
    /// steps a non-accelerating interpreter would need (saturating)
    pub canon_steps: u64,
    /// `]` back-edge decisions executed (each costs at most one budget unit in any backend)
    pub backedges: u64,
    /// pointer excursion, in cells relative to the start, inclusive
    pub lo: i64,
    pub hi: i64,
    /// number of loop iterations executed (any loop), used for the non-triviality rule
    pub loop_iters: u64,
    /// number of accelerated loop executions (R1 only)
    pub accelerated: u64,
    /// events.len() at the moment the cycle was proven (events after that are the
    /// continuation asked for with `min_events_on_cycle`)
    pub events_at_cycle: usize,
    /// steps at the start of the first proven period and the period's length in steps
    pub cycle_start_steps: u64,
    pub cycle_len_steps: u64,
}

#[derive(Clone, Copy, Debug)]
pub struct Limits {
    pub max_steps: u64,
    pub max_events: usize,
    /// After a cycle that performs I/O is proven, keep running until this many
    /// events exist (so callers can close the sink at any earlier point).
    pub min_events_on_cycle: usize,
    pub accelerate: bool,
    /// the peer cannot see outputs (there is no writer): they are neither logged nor counted
    pub mute_output: bool,
}

struct Tape {
    cells: Vec<u64>,
    origin: i64, // index in `cells` of logical cell 0
    hash: u64,   // xor over non-zero cells of cell_hash(idx, value)
}

fn cell_hash(idx: i64, v: u64) -> u64 {
    if v == 0 {
        0
    } else {
        mix64(mix64(idx as u64).wrapping_add(v))
    }
}

impl Tape {
    fn new() -> Tape {
        Tape { cells: vec![0; 64], origin: 32, hash: 0 }
    }

    #[inline]
    fn get(&self, idx: i64) -> u64 {
        let p = idx + self.origin;
        if p >= 0 && (p as usize) < self.cells.len() {
            self.cells[p as usize]
        } else {
            0
        }
    }

    fn grow_to(&mut self, idx: i64) {
        let p = idx + self.origin;
        if p < 0 {
            let add = ((-p) as usize).max(self.cells.len());
            let mut n = vec![0; add];
            n.extend_from_slice(&self.cells);
            self.cells = n;
            self.origin += add as i64;
        } else if p as usize >= self.cells.len() {
            let add = (p as usize + 1 - self.cells.len()).max(self.cells.len());
            self.cells.resize(self.cells.len() + add, 0);
        }
    }

    #[inline]
    fn set(&mut self, idx: i64, v: u64) {
        let p = idx + self.origin;
        if p < 0 || p as usize >= self.cells.len() {
            if v == 0 {
                return;
            }
            self.grow_to(idx);
        }
        let p = (idx + self.origin) as usize;
        let old = self.cells[p];
        if old != v {
            self.hash ^= cell_hash(idx, old) ^ cell_hash(idx, v);
            self.cells[p] = v;
        }
    }

    fn snapshot(&self) -> BTreeMap<i64, u64> {
        let mut m = BTreeMap::new();
        for (i, &v) in self.cells.iter().enumerate() {
            if v != 0 {
                m.insert(i as i64 - self.origin, v);
            }
        }
        m
    }
}

/// Pre-analysis of a loop body for the R1 rule.
#[derive(Clone)]
struct Simple {
    /// (offset, delta) for offsets != 0, delta already reduced modulo 2^64
    deltas: Vec<(i64, u64)>,
    /// +1 or -1 as u64 two's complement
    step_neg: bool,
    lo: i64,
    hi: i64,
}

pub struct Compiled {
    code: Vec<u8>,
    jump: Vec<usize>,
    simple: Vec<Option<Simple>>,
    pub balanced: bool,
    pub max_depth: usize,
}

pub fn compile(src: &str) -> Compiled {
    let code: Vec<u8> = src.bytes().filter(|b| b"+-<>,.[]".contains(b)).collect();
    let mut jump = vec![usize::MAX; code.len()];
    let mut stack = Vec::new();
    let mut balanced = true;
    let mut max_depth = 0;
    for (i, &c) in code.iter().enumerate() {
        if c == b'[' {
            stack.push(i);
            max_depth = max_depth.max(stack.len());
        } else if c == b']' {
            if let Some(j) = stack.pop() {
                jump[i] = j;
                jump[j] = i;
            } else {
                balanced = false;
            }
        }
    }
    if !stack.is_empty() {
        balanced = false;
    }
    let mut simple = vec![None; code.len()];
    if balanced {
        for i in 0..code.len() {
            if code[i] == b'[' {
                let end = jump[i];
                let body = &code[i + 1..end];
                if body.iter().all(|b| b"+-<>".contains(b)) {
                    let mut off = 0i64;
                    let mut d: BTreeMap<i64, u64> = BTreeMap::new();
                    let (mut lo, mut hi) = (0i64, 0i64);
                    for &b in body {
                        match b {
                            b'+' => *d.entry(off).or_insert(0) = d.get(&off).copied().unwrap_or(0).wrapping_add(1),
                            b'-' => *d.entry(off).or_insert(0) = d.get(&off).copied().unwrap_or(0).wrapping_sub(1),
                            b'<' => off -= 1,
                            _ => off += 1,
                        }
                        lo = lo.min(off);
                        hi = hi.max(off);
                    }
                    let d0 = d.get(&0).copied().unwrap_or(0);
                    if off == 0 && (d0 == u64::MAX || d0 == 1) {
                        simple[i] = Some(Simple {
                            deltas: d.iter().filter(|(&k, &v)| k != 0 && v != 0).map(|(&k, &v)| (k, v)).collect(),
                            step_neg: d0 == u64::MAX,
                            lo,
                            hi,
                        });
                    }
                }
            }
        }
    }
    Compiled { code, jump, simple, balanced, max_depth }
}

struct Saved {
    pc: usize,
    ptr: i64,
    hash: u64,
    tape: BTreeMap<i64, u64>,
    steps: u64,
    events_len: usize,
}

pub fn run(src: &str, width: u32, peer: &Peer, lim: Limits) -> RefRun {
    let prog = compile(src);
    run_compiled(&prog, width, peer, lim)
}

pub fn run_compiled(prog: &Compiled, width: u32, peer: &Peer, lim: Limits) -> RefRun {
    let mask: u64 = if width == 64 { u64::MAX } else { (1u64 << width) - 1 };
    let mut r = RefRun {
        status: Status::Halted,
        events: Vec::new(),
        canon_at_event: Vec::new(),
        steps: 0,
        canon_steps: 0,
        backedges: 0,
        lo: 0,
        hi: 0,
        loop_iters: 0,
        accelerated: 0,
        events_at_cycle: 0,
        cycle_start_steps: 0,
        cycle_len_steps: 0,
    };
    if !prog.balanced {
        r.status = Status::Unbalanced;
        return r;
    }
    let code = &prog.code;
    let mut tape = Tape::new();
    let mut ptr: i64 = 0;
    let mut pc = 0usize;
    let mut n_in = 0usize;
    let mut n_out = 0u64;
    let mut last_out = 0u8;
    // Brent-style cycle detection state.
    let mut saved: Option<Saved> = None;
    let mut power: u64 = 64;
    let mut cycle_proven = false;
    while pc < code.len() {
        if r.steps >= lim.max_steps {
            if !cycle_proven {
                r.status = Status::StepCap;
            }
            return r;
        }
        r.steps += 1;
        r.canon_steps = r.canon_steps.saturating_add(1);
        let c = code[pc];
        match c {
            b'+' => {
                tape.set(ptr, tape.get(ptr).wrapping_add(1) & mask);
                pc += 1;
            }
            b'-' => {
                tape.set(ptr, tape.get(ptr).wrapping_sub(1) & mask);
                pc += 1;
            }
            b'>' => {
                ptr += 1;
                if ptr > r.hi {
                    r.hi = ptr;
                }
                pc += 1;
            }
            b'<' => {
                ptr -= 1;
                if ptr < r.lo {
                    r.lo = ptr;
                }
                pc += 1;
            }
            b'.' if lim.mute_output => {
                pc += 1;
            }
            b'.' => {
                if r.events.len() >= lim.max_events {
                    if !cycle_proven {
                        r.status = Status::StepCap;
                    }
                    return r;
                }
                let b = tape.get(ptr) as u8;
                r.events.push(Ev::Out(b));
                r.canon_at_event.push(r.canon_steps);
                n_out += 1;
                last_out = b;
                pc += 1;
                if cycle_proven && r.events.len() >= lim.min_events_on_cycle {
                    return r;
                }
            }
            b',' => {
                if r.events.len() >= lim.max_events {
                    if !cycle_proven {
                        r.status = Status::StepCap;
                    }
                    return r;
                }
                let resp = peer.respond(n_in, n_out, last_out);
                n_in += 1;
                r.events.push(Ev::In(resp));
                r.canon_at_event.push(r.canon_steps);
                if resp.is_some() {
                    // live input: whatever was saved before no longer proves anything
                    saved = None;
                }
                tape.set(ptr, resp.unwrap_or(0) as u64);
                pc += 1;
                if cycle_proven && r.events.len() >= lim.min_events_on_cycle {
                    return r;
                }
            }
            b'[' => {
                let v = tape.get(ptr);
                if v == 0 {
                    pc = prog.jump[pc] + 1;
                } else if let (true, Some(s)) = (lim.accelerate, &prog.simple[pc]) {
                    let n = if s.step_neg { v } else { v.wrapping_neg() & mask };
                    for &(off, d) in &s.deltas {
                        let idx = ptr + off;
                        tape.set(idx, tape.get(idx).wrapping_add(d.wrapping_mul(n)) & mask);
                    }
                    tape.set(ptr, 0);
                    if ptr + s.lo < r.lo {
                        r.lo = ptr + s.lo;
                    }
                    if ptr + s.hi > r.hi {
                        r.hi = ptr + s.hi;
                    }
                    let per_iter = (prog.jump[pc] - pc) as u128;
                    r.canon_steps = r.canon_steps.saturating_add((per_iter * n as u128).min(u64::MAX as u128) as u64);
                    r.accelerated += 1;
                    r.loop_iters += 1;
                    r.backedges += 1;
                    pc = prog.jump[pc] + 1;
                } else {
                    pc += 1;
                }
            }
            _ => {
                // ']'
                r.backedges += 1;
                if tape.get(ptr) != 0 {
                    r.loop_iters += 1;
                    pc = prog.jump[pc] + 1;
                    if !cycle_proven {
                        // state at a taken back-edge
                        let hash = tape.hash;
                        let mut hit = false;
                        if let Some(s) = &saved {
                            if s.pc == pc && s.ptr == ptr && s.hash == hash && s.tape == tape.snapshot() {
                                hit = true;
                            }
                        }
                        if hit {
                            let s = saved.as_ref().unwrap();
                            let io = r.events.len() > s.events_len;
                            r.status = Status::Cycle { io_in_cycle: io };
                            r.events_at_cycle = r.events.len();
                            r.cycle_start_steps = s.steps;
                            r.cycle_len_steps = r.steps - s.steps;
                            cycle_proven = true;
                            if !io || r.events.len() >= lim.min_events_on_cycle {
                                return r;
                            }
                        } else {
                            let stale = match &saved {
                                None => true,
                                Some(s) => r.steps - s.steps >= power,
                            };
                            if stale {
                                if saved.is_some() {
                                    power = power.saturating_mul(2);
                                }
                                saved = Some(Saved {
                                    pc,
                                    ptr,
                                    hash,
                                    tape: tape.snapshot(),
                                    steps: r.steps,
                                    events_len: r.events.len(),
                                });
                            }
                        }
                    }
                } else {
                    pc += 1;
                }
            }
        }
    }
    if !cycle_proven {
        r.status = Status::Halted;
    }
    r
}

#[cfg(test)]
mod tests {
    use super::*;

    fn peer(bytes: &[u8]) -> Peer {
        Peer { script: bytes.to_vec(), react_n: 0, react_l: 0, mask: 0xff }
    }

    fn lim(acc: bool) -> Limits {
        Limits { max_steps: 1_000_000, max_events: 10_000, min_events_on_cycle: 100, accelerate: acc, mute_output: false }
    }

    #[test]
    fn hello() {
        let code = ">++++++++[-<+++++++++>]<.>>+>-[+]++>++>+++[>[->+++<<+++>]<<]>-----.>->+++..+++.>-.<<+[>[+>+]>>]<--------------.>>.+++.------.--------.>+.>+.";
        for acc in [false, true] {
            let r = run(code, 8, &peer(&[]), lim(acc));
            assert_eq!(r.status, Status::Halted);
            let s: Vec<u8> = r.events.iter().map(|e| if let Ev::Out(b) = e { *b } else { 0 }).collect();
            assert_eq!(String::from_utf8(s).unwrap(), "Hello World!\n");
        }
    }

    #[test]
    fn cycles() {
        let r = run("+[]", 8, &peer(&[]), lim(true));
        assert_eq!(r.status, Status::Cycle { io_in_cycle: false });
        let r = run("+[.]", 8, &peer(&[]), lim(true));
        assert_eq!(r.status, Status::Cycle { io_in_cycle: true });
        assert!(r.events.len() >= 100);
        // counter with even step and odd start never reaches zero
        let r = run("+[--]", 8, &peer(&[]), lim(false));
        assert_eq!(r.status, Status::Cycle { io_in_cycle: false });
        // input-driven loop halts at EOF (reads 0)
        let r = run(",[.,]", 8, &peer(&[1, 2, 3]), lim(true));
        assert_eq!(r.status, Status::Halted);
        assert_eq!(r.events.len(), 7);
        // wide cells: -[-] is 2^64 steps canonically, one accelerated step in R1
        let r = run("-[-]+.", 64, &peer(&[]), lim(true));
        assert_eq!(r.status, Status::Halted);
        assert_eq!(r.events, vec![Ev::Out(1)]);
        let r = run("-[-]+.", 64, &peer(&[]), lim(false));
        assert_eq!(r.status, Status::StepCap);
    }
}
