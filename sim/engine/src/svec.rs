//! C18: operation histories on hpbf's inline small vector against a `Vec` model, with
//! a drop ledger (every element dropped exactly once). The type is crate-private in
//! hpbf, so its source file is compiled into the harness directly.

#![allow(dead_code)]

use std::cell::RefCell;
use std::collections::hash_map::DefaultHasher;
use std::hash::{Hash, Hasher};
use std::panic::AssertUnwindSafe;

use serde_json::{json, Value};

use crate::check::Verdict;
use crate::rng::Rng;

#[path = "/repo/src/smallvec.rs"]
#[allow(unused, clippy::all)]
mod smallvec_src;
use smallvec_src::SmallVec;

// ------------------------------------------------------------------ ledger

#[derive(Default)]
struct Ledger {
    created: u32,
    dropped: Vec<u8>,
    garbage_drops: u32,
    /// elements a panicking predicate made unreachable (a leak the property does not forbid)
    excused: Vec<u32>,
}

thread_local! {
    static LEDGER: RefCell<Ledger> = RefCell::new(Ledger::default());
}

fn ledger_reset() {
    LEDGER.with(|l| *l.borrow_mut() = Ledger::default());
}

pub struct Tracked {
    id: u32,
    val: u8,
}

impl Tracked {
    fn new(val: u8) -> Tracked {
        let id = LEDGER.with(|l| {
            let mut l = l.borrow_mut();
            let id = l.created;
            l.created += 1;
            l.dropped.push(0);
            id
        });
        Tracked { id, val }
    }
}

impl Drop for Tracked {
    fn drop(&mut self) {
        // must never panic
        let _ = LEDGER.try_with(|l| {
            if let Ok(mut l) = l.try_borrow_mut() {
                match l.dropped.get_mut(self.id as usize) {
                    Some(c) => *c = c.saturating_add(1),
                    None => l.garbage_drops += 1,
                }
            }
        });
    }
}

impl Clone for Tracked {
    fn clone(&self) -> Self {
        Tracked::new(self.val)
    }
}
/// The drop-tracked element has one value that is not equal to itself (as a float NaN is):
/// comparisons have to be made element by element, whatever the vector's identity.
pub const NAN_LIKE: u8 = 255;

impl PartialEq for Tracked {
    fn eq(&self, o: &Self) -> bool {
        self.val == o.val && self.val != NAN_LIKE
    }
}
impl Eq for Tracked {}
impl PartialOrd for Tracked {
    fn partial_cmp(&self, o: &Self) -> Option<std::cmp::Ordering> {
        Some(self.cmp(o))
    }
}
impl Ord for Tracked {
    fn cmp(&self, o: &Self) -> std::cmp::Ordering {
        self.val.cmp(&o.val)
    }
}
impl Hash for Tracked {
    fn hash<H: Hasher>(&self, h: &mut H) {
        self.val.hash(h)
    }
}

/// A zero-sized element with a destructor: no state, so only the numbers of creations and
/// drops can be followed (pointer arithmetic over such elements does not move).
#[derive(PartialEq, Eq, PartialOrd, Ord, Hash)]
pub struct Zst;

thread_local! {
    static ZST_COUNTS: std::cell::Cell<(u64, u64, u64)> = const { std::cell::Cell::new((0, 0, 0)) }; // created, dropped, drops without a live element
}

impl Zst {
    fn new() -> Zst {
        ZST_COUNTS.with(|c| {
            let (a, b, g) = c.get();
            c.set((a + 1, b, g));
        });
        Zst
    }
}
impl Clone for Zst {
    fn clone(&self) -> Self {
        Zst::new()
    }
}
impl Drop for Zst {
    fn drop(&mut self) {
        let _ = ZST_COUNTS.try_with(|c| {
            let (a, b, g) = c.get();
            c.set((a, b + 1, g + (b + 1 > a) as u64));
        });
    }
}
impl Elem for Zst {
    fn make(_: u8) -> Self {
        Zst::new()
    }
    fn val(&self) -> u8 {
        0
    }
    fn bump(&mut self, _: u8) {}
    fn norm(_: u8) -> u8 {
        0
    }
    fn drops_so_far() -> u64 {
        ZST_COUNTS.with(|c| c.get().1)
    }
    fn excuse_leaks(n: u64) {
        ZST_EXCUSED.with(|c| c.set(c.get() + n));
    }
}

thread_local! {
    static ZST_EXCUSED: std::cell::Cell<u64> = const { std::cell::Cell::new(0) };
}

pub trait Elem: Clone + Ord + Hash {
    /// what a model value becomes once stored in this element type
    fn norm(v: u8) -> u8 {
        v
    }
    /// for element types without identity: drops counted so far, and a way to excuse leaks
    fn drops_so_far() -> u64 {
        0
    }
    fn excuse_leaks(_: u64) {}
    fn make(v: u8) -> Self;
    fn val(&self) -> u8;
    fn bump(&mut self, add: u8);
    /// ledger identity, if the type is drop-tracked
    fn id(&self) -> Option<u32> {
        None
    }
    /// `==` of two elements made from these model values
    fn eq_vals(x: u8, y: u8) -> bool {
        x == y
    }
}
impl Elem for Tracked {
    fn eq_vals(x: u8, y: u8) -> bool {
        x == y && x != NAN_LIKE
    }
    fn id(&self) -> Option<u32> {
        Some(self.id)
    }
    fn make(v: u8) -> Self {
        Tracked::new(v)
    }
    fn val(&self) -> u8 {
        self.val
    }
    fn bump(&mut self, add: u8) {
        self.val = self.val.wrapping_add(add);
    }
}
impl Elem for u32 {
    fn make(v: u8) -> Self {
        v as u32 + 1000
    }
    fn val(&self) -> u8 {
        (*self - 1000) as u8
    }
    fn bump(&mut self, add: u8) {
        *self = 1000 + ((*self - 1000) as u8).wrapping_add(add) as u32;
    }
}

// ------------------------------------------------------------------ operations

pub const SLOTS: usize = 3;

#[derive(Clone, Debug, PartialEq)]
pub enum Op {
    New(usize),
    WithCapacity(usize, usize),
    With(usize, u8),
    WithAll(usize, Vec<u8>),
    FromVec(usize, Vec<u8>),
    Push(usize, u8),
    Extend(usize, Vec<u8>),
    Clear(usize),
    /// keep elements with val % m != r
    Retain(usize, u8, u8),
    /// same predicate, but every *visited* element is first changed by `add`
    RetainMut(usize, u8, u8, u8),
    /// retain (flag: retain_mut) with a predicate that panics at its k-th call, caught
    RetainPanic(usize, u8, u8, u8, bool),
    Dedup(usize),
    Sort(usize),
    SortDesc(usize),
    CloneTo(usize, usize),
    Eq(usize, usize),
    Cmp(usize, usize),
    HashOf(usize),
    Index(usize, usize),
    IndexMut(usize, usize, u8),
    Iter(usize),
    IterMut(usize, u8),
    /// by-value iteration abandoned after `take` items (usize::MAX = consume fully)
    IntoIter(usize, usize),
    /// by-value iterator: `nth(k)`, then abandoned
    IntoIterNth(usize, usize),
    /// by-value iterator: `skip(k)` then take everything
    IntoIterSkip(usize, usize),
    /// by-value iterator: `step_by(k)` (k >= 1) to the end
    IntoIterStep(usize, usize),
    Drop(usize),
}

#[derive(Clone, Debug, PartialEq)]
pub struct SvecCheck {
    pub prop: String,
    pub n: usize,        // inline capacity 1 or 2
    pub tracked: bool,   // element type with a destructor
    pub zst: bool,       // zero-sized element type with a destructor (overrides `tracked`)
    pub ops: Vec<Op>,
}

fn vals_json(v: &[u8]) -> Value {
    json!(v)
}
fn vals_from(v: &Value) -> Option<Vec<u8>> {
    Some(v.as_array()?.iter().map(|x| x.as_u64().unwrap_or(0) as u8).collect())
}

impl Op {
    fn to_json(&self) -> Value {
        match self {
            Op::New(s) => json!(["new", s]),
            Op::WithCapacity(s, k) => json!(["with_capacity", s, k]),
            Op::With(s, v) => json!(["with", s, v]),
            Op::WithAll(s, v) => json!(["with_all", s, vals_json(v)]),
            Op::FromVec(s, v) => json!(["from_vec", s, vals_json(v)]),
            Op::Push(s, v) => json!(["push", s, v]),
            Op::Extend(s, v) => json!(["extend", s, vals_json(v)]),
            Op::Clear(s) => json!(["clear", s]),
            Op::Retain(s, m, r) => json!(["retain", s, m, r]),
            Op::RetainMut(s, m, r, a) => json!(["retain_mut", s, m, r, a]),
            Op::RetainPanic(s, m, r, k, mt) => json!(["retain_with_panicking_predicate", s, m, r, k, mt]),
            Op::Dedup(s) => json!(["dedup", s]),
            Op::Sort(s) => json!(["sort", s]),
            Op::SortDesc(s) => json!(["sort_desc", s]),
            Op::CloneTo(a, b) => json!(["clone", a, b]),
            Op::Eq(a, b) => json!(["eq", a, b]),
            Op::Cmp(a, b) => json!(["cmp", a, b]),
            Op::HashOf(s) => json!(["hash", s]),
            Op::Index(s, i) => json!(["index", s, i]),
            Op::IndexMut(s, i, v) => json!(["index_mut", s, i, v]),
            Op::Iter(s) => json!(["iter", s]),
            Op::IterMut(s, a) => json!(["iter_mut", s, a]),
            Op::IntoIter(s, t) => json!(["into_iter", s, if *t == usize::MAX { -1 } else { *t as i64 }]),
            Op::IntoIterNth(s, k) => json!(["into_iter_nth", s, k]),
            Op::IntoIterSkip(s, k) => json!(["into_iter_skip", s, k]),
            Op::IntoIterStep(s, k) => json!(["into_iter_step_by", s, k]),
            Op::Drop(s) => json!(["drop", s]),
        }
    }

    fn from_json(v: &Value) -> Option<Op> {
        let a = v.as_array()?;
        let u = |i: usize| a.get(i).and_then(|x| x.as_u64()).map(|x| x as usize);
        let b = |i: usize| a.get(i).and_then(|x| x.as_u64()).map(|x| x as u8);
        let s = u(1)? % SLOTS;
        Some(match a.first()?.as_str()? {
            "new" => Op::New(s),
            "with_capacity" => Op::WithCapacity(s, u(2)?),
            "with" => Op::With(s, b(2)?),
            "with_all" => Op::WithAll(s, vals_from(a.get(2)?)?),
            "from_vec" => Op::FromVec(s, vals_from(a.get(2)?)?),
            "push" => Op::Push(s, b(2)?),
            "extend" => Op::Extend(s, vals_from(a.get(2)?)?),
            "clear" => Op::Clear(s),
            "retain" => Op::Retain(s, b(2)?.max(1), b(3)?),
            "retain_mut" => Op::RetainMut(s, b(2)?.max(1), b(3)?, b(4)?),
            "retain_with_panicking_predicate" => Op::RetainPanic(s, b(2)?.max(1), b(3)?, b(4)?, a.get(5)?.as_bool()?),
            "dedup" => Op::Dedup(s),
            "sort" => Op::Sort(s),
            "sort_desc" => Op::SortDesc(s),
            "clone" => Op::CloneTo(s, u(2)? % SLOTS),
            "eq" => Op::Eq(s, u(2)? % SLOTS),
            "cmp" => Op::Cmp(s, u(2)? % SLOTS),
            "hash" => Op::HashOf(s),
            "index" => Op::Index(s, u(2)?),
            "index_mut" => Op::IndexMut(s, u(2)?, b(3)?),
            "iter" => Op::Iter(s),
            "iter_mut" => Op::IterMut(s, b(2)?),
            "into_iter" => {
                let t = a.get(2)?.as_i64()?;
                Op::IntoIter(s, if t < 0 { usize::MAX } else { t as usize })
            }
            "into_iter_nth" => Op::IntoIterNth(s, u(2)?),
            "into_iter_skip" => Op::IntoIterSkip(s, u(2)?),
            "into_iter_step_by" => Op::IntoIterStep(s, u(2)?.max(1)),
            "drop" => Op::Drop(s),
            _ => return None,
        })
    }

    /// Map every element value (and every amount added to one) through `f`.
    fn normalise(&mut self, f: fn(u8) -> u8) {
        match self {
            Op::With(_, x) | Op::Push(_, x) | Op::IndexMut(_, _, x) | Op::IterMut(_, x) => *x = f(*x),
            Op::WithAll(_, v) | Op::FromVec(_, v) | Op::Extend(_, v) => v.iter_mut().for_each(|x| *x = f(*x)),
            Op::RetainMut(_, _, _, add) => *add = f(*add),
            _ => {}
        }
    }

    fn weight(&self) -> usize {
        match self {
            Op::WithAll(_, v) | Op::FromVec(_, v) | Op::Extend(_, v) => 2 + v.len(),
            _ => 1,
        }
    }
}

impl SvecCheck {
    pub fn to_json(&self) -> Value {
        json!({
            "property": self.prop,
            "kind": "svec",
            "inline_capacity": self.n,
            "element": if self.zst { "zero-sized-with-destructor" } else if self.tracked { "drop-tracked" } else { "u32" },
            "ops": self.ops.iter().map(|o| o.to_json()).collect::<Vec<_>>(),
        })
    }

    pub fn from_json(v: &Value) -> Option<SvecCheck> {
        Some(SvecCheck {
            prop: v.get("property")?.as_str()?.to_string(),
            n: v.get("inline_capacity")?.as_u64()? as usize,
            tracked: v.get("element")?.as_str()? == "drop-tracked",
            zst: v.get("element")?.as_str()? == "zero-sized-with-destructor",
            ops: v.get("ops")?.as_array()?.iter().map(Op::from_json).collect::<Option<Vec<_>>>()?,
        })
    }

    pub fn size(&self) -> usize {
        self.ops.iter().map(|o| o.weight() * 100).sum::<usize>() + self.n
    }

    pub fn shrink_candidates(&self) -> Vec<SvecCheck> {
        let mut out = Vec::new();
        for (i, o) in self.ops.iter().enumerate() {
            let mut alts = Vec::new();
            match o {
                Op::WithAll(s, v) if !v.is_empty() => {
                    let mut w = v.clone();
                    w.pop();
                    alts.push(Op::WithAll(*s, w));
                }
                Op::FromVec(s, v) if !v.is_empty() => {
                    let mut w = v.clone();
                    w.pop();
                    alts.push(Op::FromVec(*s, w));
                }
                Op::Extend(s, v) if !v.is_empty() => {
                    let mut w = v.clone();
                    w.pop();
                    alts.push(Op::Extend(*s, w));
                }
                _ => {}
            }
            for a in alts {
                let mut n = self.clone();
                n.ops[i] = a;
                out.push(n);
            }
        }
        out
    }
}

// ------------------------------------------------------------------ the driver

fn hash_of<T: Hash>(t: &T) -> u64 {
    let mut h = DefaultHasher::new();
    t.hash(&mut h);
    h.finish()
}

/// hpbf's own hasher (the one every optimiser map keyed by a small vector uses). Unlike
/// SipHash it is not a byte-stream hasher: `write(bytes)` and `write_u64` mix differently.
#[allow(dead_code)]
#[path = "/repo/src/hasher.rs"]
mod repo_hasher;

fn fast_hash_of<T: Hash>(t: &T) -> u64 {
    use std::hash::BuildHasher;
    let mut h = repo_hasher::FastHasherBuilder.build_hasher();
    t.hash(&mut h);
    h.finish()
}

/// Run `f`, which is expected to panic, without the panic message reaching stderr.
fn panics<R>(f: impl FnOnce() -> R) -> bool {
    let hook = std::panic::take_hook();
    std::panic::set_hook(Box::new(|_| {}));
    let r = std::panic::catch_unwind(std::panic::AssertUnwindSafe(f));
    std::panic::set_hook(hook);
    r.is_err()
}

fn run<T: Elem, const N: usize>(c: &SvecCheck, v: &mut Verdict) {
    let mut sv: Vec<Option<SmallVec<T, N>>> = (0..SLOTS).map(|_| None).collect();
    let mut model: Vec<Option<Vec<u8>>> = vec![None; SLOTS];
    let mut crossed = false;
    let mut removed = false;
    let mut panicked_predicates = 0u64;
    macro_rules! bad {
        ($i:expr, $class:expr, $($arg:tt)*) => {{
            v.fail($class, $i, format!($($arg)*));
            return;
        }};
    }
    for (i, op) in c.ops.iter().enumerate() {
        match op {
            Op::New(s) => {
                sv[*s] = Some(SmallVec::new());
                model[*s] = Some(vec![]);
            }
            Op::WithCapacity(s, k) => {
                sv[*s] = Some(SmallVec::with_capacity(*k));
                model[*s] = Some(vec![]);
            }
            Op::With(s, x) => {
                sv[*s] = Some(SmallVec::with(T::make(*x)));
                model[*s] = Some(vec![*x]);
            }
            Op::WithAll(s, xs) => {
                let m: Vec<u8> = xs.iter().copied().take(3).collect();
                sv[*s] = Some(match m.len() {
                    0 => SmallVec::with_all::<0>([]),
                    1 => SmallVec::with_all([T::make(m[0])]),
                    2 => SmallVec::with_all([T::make(m[0]), T::make(m[1])]),
                    _ => SmallVec::with_all([T::make(m[0]), T::make(m[1]), T::make(m[2])]),
                });
                model[*s] = Some(m);
            }
            Op::FromVec(s, xs) => {
                sv[*s] = Some(SmallVec::from_vec(xs.iter().map(|&x| T::make(x)).collect()));
                model[*s] = Some(xs.clone());
            }
            Op::Push(s, x) => {
                if let (Some(a), Some(m)) = (&mut sv[*s], &mut model[*s]) {
                    a.push(T::make(*x));
                    m.push(*x);
                }
            }
            Op::Extend(s, xs) => {
                if let (Some(a), Some(m)) = (&mut sv[*s], &mut model[*s]) {
                    // an iterator that is not fused: it would yield again after its first `None`,
                    // which a Vec never asks for
                    let polls_after_end = std::cell::Cell::new(0u32);
                    let mut k = 0usize;
                    let mut ended = false;
                    let it = std::iter::from_fn(|| {
                        if ended {
                            polls_after_end.set(polls_after_end.get() + 1);
                            return if polls_after_end.get() <= 2 { Some(T::make(T::norm(77))) } else { None };
                        }
                        if k < xs.len() {
                            k += 1;
                            Some(T::make(xs[k - 1]))
                        } else {
                            ended = true;
                            None
                        }
                    });
                    a.extend(it);
                    m.extend(xs.iter().copied());
                    if polls_after_end.get() > 0 {
                        bad!(i, "polled-after-end", "op {}: extend asked its source for more after the source had returned None ({} more calls)", i, polls_after_end.get());
                    }
                }
            }
            Op::Clear(s) => {
                if let (Some(a), Some(m)) = (&mut sv[*s], &mut model[*s]) {
                    a.clear();
                    m.clear();
                    removed = true;
                }
            }
            Op::Retain(s, md, r) => {
                if let (Some(a), Some(m)) = (&mut sv[*s], &mut model[*s]) {
                    let (md, r) = (*md, *r);
                    // the predicate sees every element exactly once, in order (it may have state)
                    let seen = std::cell::RefCell::new(Vec::new());
                    a.retain(|t| {
                        seen.borrow_mut().push(t.val());
                        t.val() % md != r
                    });
                    if *seen.borrow() != *m {
                        bad!(i, "predicate-calls", "op {}: retain called its predicate on {:?} but the vector held {:?} (each element once, in order, is what a Vec does)", i, seen.borrow(), m);
                    }
                    m.retain(|x| x % md != r);
                    removed = true;
                }
            }
            Op::RetainMut(s, md, r, add) => {
                if let (Some(a), Some(m)) = (&mut sv[*s], &mut model[*s]) {
                    let (md, r, add) = (*md, *r, *add);
                    let seen = std::cell::RefCell::new(Vec::new());
                    a.retain_mut(|t| {
                        seen.borrow_mut().push(t.val());
                        t.bump(add);
                        t.val() % md != r
                    });
                    if *seen.borrow() != *m {
                        bad!(i, "predicate-calls", "op {}: retain_mut called its predicate on {:?} but the vector held {:?}", i, seen.borrow(), m);
                    }
                    m.retain_mut(|x| {
                        *x = x.wrapping_add(add);
                        *x % md != r
                    });
                    removed = true;
                }
            }
            Op::RetainPanic(s, md, r, k, as_mut) => {
                if let (Some(a), Some(m)) = (&mut sv[*s], &mut model[*s]) {
                    let (md, r, k, as_mut) = (*md, *r, *k as usize, *as_mut);
                    let before: Vec<u32> = a.iter().filter_map(|t| t.id()).collect();
                    let (len_before, drops_before) = (a.len() as u64, T::drops_so_far());
                    let calls = std::cell::Cell::new(0usize);
                    let did_panic = panics(AssertUnwindSafe(|| {
                        if as_mut {
                            a.retain_mut(|t| {
                                calls.set(calls.get() + 1);
                                if calls.get() > k {
                                    panic!("predicate panics");
                                }
                                t.val() % md != r
                            })
                        } else {
                            a.retain(|t| {
                                calls.set(calls.get() + 1);
                                if calls.get() > k {
                                    panic!("predicate panics");
                                }
                                t.val() % md != r
                            })
                        }
                    }));
                    if !did_panic {
                        m.retain(|x| x % md != r);
                    } else {
                        panicked_predicates += 1;
                        // whatever is still visible must be alive, and what became unreachable is
                        // excused as a leak (never as a second drop)
                        let after: Vec<u32> = a.iter().filter_map(|t| t.id()).collect();
                        let dead_visible = LEDGER.with(|l| {
                            let l = l.borrow();
                            after.iter().filter(|&&id| l.dropped.get(id as usize).copied().unwrap_or(1) > 0).count()
                        });
                        if dead_visible > 0 {
                            bad!(i, "dropped-element-visible", "op {}: after the predicate of retain panicked at call {}, {} element(s) that were already dropped are still in the vector", i, k + 1, dead_visible);
                        }
                        LEDGER.with(|l| {
                            let mut l = l.borrow_mut();
                            for id in before.iter().filter(|id| !after.contains(id)) {
                                l.excused.push(*id);
                            }
                        });
                        // (element types without identity: by numbers)
                        T::excuse_leaks(len_before.saturating_sub(a.len() as u64).saturating_sub(T::drops_so_far() - drops_before));
                        *m = a.iter().map(|t| t.val()).collect();
                    }
                    removed = true;
                }
            }
            Op::Dedup(s) => {
                if let (Some(a), Some(m)) = (&mut sv[*s], &mut model[*s]) {
                    a.dedup();
                    m.dedup_by(|x, y| T::eq_vals(*x, *y));
                    removed = true;
                }
            }
            Op::Sort(s) => {
                if let (Some(a), Some(m)) = (&mut sv[*s], &mut model[*s]) {
                    a.sort();
                    m.sort();
                }
            }
            Op::SortDesc(s) => {
                if let (Some(a), Some(m)) = (&mut sv[*s], &mut model[*s]) {
                    a.sort_by(|x, y| y.cmp(x));
                    m.sort_by(|x, y| y.cmp(x));
                }
            }
            Op::CloneTo(x, y) => {
                if x != y {
                    if let Some(a) = &sv[*x] {
                        let cl = a.clone();
                        sv[*y] = Some(cl);
                        model[*y] = model[*x].clone();
                    }
                }
            }
            Op::Eq(x, y) => {
                if let (Some(a), Some(b), Some(ma), Some(mb)) = (&sv[*x], &sv[*y], &model[*x], &model[*y]) {
                    // (x may be y: a vector compared with itself, element by element like any other)
                    let want = ma.len() == mb.len() && ma.iter().zip(mb.iter()).all(|(p, q)| T::eq_vals(*p, *q));
                    #[allow(clippy::nonminimal_bool)]
                    if (a == b) != want || (a != b) == want {
                        bad!(i, "wrong-eq", "op {}: == gives {} but the model vectors {:?} and {:?} give {} ({} stands for a value that is not equal to itself)", i, a == b, ma, mb, want, NAN_LIKE);
                    }
                }
            }
            Op::Cmp(x, y) => {
                if let (Some(a), Some(b), Some(ma), Some(mb)) = (&sv[*x], &sv[*y], &model[*x], &model[*y]) {
                    if a.cmp(b) != ma.cmp(mb) || a.partial_cmp(b) != Some(ma.cmp(mb)) {
                        bad!(i, "wrong-cmp", "op {}: cmp gives {:?} but the model vectors {:?} and {:?} give {:?}", i, a.cmp(b), ma, mb, ma.cmp(mb));
                    }
                }
            }
            Op::HashOf(s) => {
                if let (Some(a), Some(m)) = (&sv[*s], &model[*s]) {
                    let mv: Vec<T> = m.iter().map(|&x| T::make(x)).collect();
                    if hash_of(a) != hash_of(&mv) {
                        bad!(i, "wrong-hash", "op {}: hash differs from the hash of a Vec with the same contents {:?}", i, m);
                    }
                    // equal vectors hash equally whatever their representation and hasher
                    let heap: SmallVec<T, N> = SmallVec::from_vec(mv.clone());
                    let mut grown: SmallVec<T, N> = SmallVec::new();
                    for x in m.iter() {
                        grown.push(T::make(*x));
                    }
                    for (what, other) in [("built by from_vec", &heap), ("built by pushes", &grown)] {
                        let reflexive = m.iter().all(|x| T::eq_vals(*x, *x));
                        if (a == other) != reflexive {
                            bad!(i, "wrong-eq", "op {}: vector with contents {:?} is not equal to one {} with the same contents", i, m, what);
                        }
                        if fast_hash_of(a) != fast_hash_of(other) || hash_of(a) != hash_of(other) {
                            bad!(i, "wrong-hash", "op {}: vector with contents {:?} and an equal one {} hash differently (std SipHash equal: {}, hpbf FastHasher equal: {})", i, m, what, hash_of(a) == hash_of(other), fast_hash_of(a) == fast_hash_of(other));
                        }
                    }
                }
            }
            Op::Index(s, k) => {
                if let (Some(a), Some(m)) = (&sv[*s], &model[*s]) {
                    if *k < m.len() && a[*k].val() != m[*k] {
                        bad!(i, "wrong-index", "op {}: [{}] is {} but should be {}", i, k, a[*k].val(), m[*k]);
                    }
                    if *k >= m.len() && !panics(|| a[*k].val()) {
                        bad!(i, "index-past-len", "op {}: [{}] on a vector of length {} hands out an element (a Vec panics)", i, k, m.len());
                    }
                }
            }
            Op::IndexMut(s, k, x) => {
                if let (Some(a), Some(m)) = (&mut sv[*s], &mut model[*s]) {
                    if *k < m.len() {
                        a[*k] = T::make(*x);
                        m[*k] = *x;
                    } else {
                        // the new element is made first: if the store does not panic it is lost
                        // or replaces a dead slot, which the drop ledger shows as well
                        let e = T::make(*x);
                        if !panics(move || a[*k] = e) {
                            bad!(i, "index-past-len", "op {}: [{}] = x on a vector of length {} stores the element (a Vec panics)", i, k, m.len());
                        }
                    }
                }
            }
            Op::Iter(s) => {
                if let (Some(a), Some(m)) = (&sv[*s], &model[*s]) {
                    let got: Vec<u8> = a.iter().map(|t| t.val()).collect();
                    let got2: Vec<u8> = (&*a).into_iter().map(|t| t.val()).collect();
                    if &got != m || &got2 != m {
                        bad!(i, "wrong-iter", "op {}: iteration yields {:?} but should yield {:?}", i, got, m);
                    }
                }
            }
            Op::IterMut(s, add) => {
                if let (Some(a), Some(m)) = (&mut sv[*s], &mut model[*s]) {
                    for t in &mut *a {
                        t.bump(*add);
                    }
                    for x in m.iter_mut() {
                        *x = x.wrapping_add(*add);
                    }
                }
            }
            Op::IntoIter(s, take) => {
                if let (Some(a), Some(m)) = (sv[*s].take(), model[*s].take()) {
                    let mut it = a.into_iter();
                    let mut got = Vec::new();
                    let mut k = 0;
                    while k < *take {
                        match it.next() {
                            Some(t) => got.push(t.val()),
                            None => break,
                        }
                        k += 1;
                    }
                    drop(it); // abandoned here
                    let want: Vec<u8> = m.iter().copied().take(*take).collect();
                    if got != want {
                        bad!(i, "wrong-into-iter", "op {}: by-value iteration yields {:?} but should yield {:?}", i, got, want);
                    }
                    removed = true;
                }
            }
            Op::IntoIterNth(s, k) => {
                if let (Some(a), Some(m)) = (sv[*s].take(), model[*s].take()) {
                    let mut it = a.into_iter();
                    let got = it.nth(*k).map(|t| t.val());
                    let next = it.next().map(|t| t.val());
                    drop(it);
                    let want = m.get(*k).copied();
                    let want_next = m.get(*k + 1).copied();
                    if got != want || next != want_next {
                        bad!(i, "wrong-into-iter", "op {}: into_iter().nth({}) then next() give {:?}, {:?} but should give {:?}, {:?}", i, k, got, next, want, want_next);
                    }
                    removed = true;
                }
            }
            Op::IntoIterSkip(s, k) => {
                if let (Some(a), Some(m)) = (sv[*s].take(), model[*s].take()) {
                    let got: Vec<u8> = a.into_iter().skip(*k).map(|t| t.val()).collect();
                    let want: Vec<u8> = m.into_iter().skip(*k).collect();
                    if got != want {
                        bad!(i, "wrong-into-iter", "op {}: into_iter().skip({}) yields {:?} but should yield {:?}", i, k, got, want);
                    }
                    removed = true;
                }
            }
            Op::IntoIterStep(s, k) => {
                if let (Some(a), Some(m)) = (sv[*s].take(), model[*s].take()) {
                    let got: Vec<u8> = a.into_iter().step_by((*k).max(1)).map(|t| t.val()).collect();
                    let want: Vec<u8> = m.into_iter().step_by((*k).max(1)).collect();
                    if got != want {
                        bad!(i, "wrong-into-iter", "op {}: into_iter().step_by({}) yields {:?} but should yield {:?}", i, k, got, want);
                    }
                    removed = true;
                }
            }
            Op::Drop(s) => {
                sv[*s] = None;
                model[*s] = None;
            }
        }
        // slice view == model, for every slot
        for s in 0..SLOTS {
            if let (Some(a), Some(m)) = (&sv[s], &model[s]) {
                let got: Vec<u8> = a.as_slice().iter().map(|t| t.val()).collect();
                if &got != m || a.len() != m.len() {
                    bad!(i, "wrong-contents", "after op {} ({:?}) slot {} holds {:?} but a Vec subjected to the same history holds {:?}", i, op, s, got, m);
                }
                if m.len() > N {
                    crossed = true;
                }
            }
        }
    }
    drop(sv);
    if panicked_predicates > 0 {
        v.add("fired_predicate_panic", panicked_predicates);
    }
    v.nontrivial = crossed && removed;
}

pub fn evaluate(c: &SvecCheck) -> Verdict {
    let mut v = Verdict::default();
    ledger_reset();
    ZST_COUNTS.with(|z| z.set((0, 0, 0)));
    ZST_EXCUSED.with(|z| z.set(0));
    if c.zst {
        // the model only ever sees what a stateless element can hold
        let mut cz = c.clone();
        for o in cz.ops.iter_mut() {
            o.normalise(Zst::norm);
        }
        match c.n {
            1 => run::<Zst, 1>(&cz, &mut v),
            _ => run::<Zst, 2>(&cz, &mut v),
        }
        v.executions = 1;
        let (created, dropped, garbage) = ZST_COUNTS.with(|z| z.get());
        v.add("elements_created", created);
        if v.class.is_none() {
            if garbage > 0 || dropped > created {
                v.fail("double-drop", 0, format!("{} zero-sized elements were created but {} were dropped", created, dropped));
            } else if dropped + ZST_EXCUSED.with(|z| z.get()) < created {
                v.fail("leak", 0, format!("{} of {} zero-sized elements were never dropped", created - dropped, created));
            }
        }
        return v;
    }
    match (c.tracked, c.n) {
        (true, 1) => run::<Tracked, 1>(c, &mut v),
        (true, _) => run::<Tracked, 2>(c, &mut v),
        (false, 1) => run::<u32, 1>(c, &mut v),
        (false, _) => run::<u32, 2>(c, &mut v),
    }
    v.executions = 1;
    if c.tracked {
        let (created, leaks, doubles, garbage) = LEDGER.with(|l| {
            let l = l.borrow();
            (
                l.created,
                l.dropped.iter().enumerate().filter(|(id, &d)| d == 0 && !l.excused.contains(&(*id as u32))).count(),
                l.dropped.iter().filter(|&&d| d > 1).count(),
                l.garbage_drops,
            )
        });
        v.add("elements_created", created as u64);
        if v.class.is_none() {
            if doubles > 0 {
                v.fail("double-drop", 0, format!("{} of {} elements were dropped more than once", doubles, created));
            } else if garbage > 0 {
                v.fail("drop-of-uninitialised", 0, format!("{} drops of values that were never created (uninitialised slot read)", garbage));
            } else if leaks > 0 {
                v.fail("leak", 0, format!("{} of {} elements were never dropped", leaks, created));
            }
        }
    }
    v
}

pub fn generate(rng: &mut Rng, prop: &str) -> SvecCheck {
    let n = if rng.coin() { 1 } else { 2 };
    let tracked = rng.chance(3, 4);
    let len = match rng.below(4) {
        0 => rng.urange(1, 5),
        1 | 2 => rng.urange(3, 14),
        _ => rng.urange(10, 40),
    };
    let small = |rng: &mut Rng| if rng.chance(1, 24) { NAN_LIKE } else { rng.below(4) as u8 };
    let vals = |rng: &mut Rng, n: usize| -> Vec<u8> {
        // lengths biased to the inline/heap boundary N-1, N, N+1
        let l = match rng.below(6) {
            0 => n.saturating_sub(1),
            1 => n,
            2 => n + 1,
            3 => 0,
            _ => rng.urange(0, 5),
        };
        (0..l).map(|_| rng.below(4) as u8).collect()
    };
    let mut ops = vec![];
    // make sure slot 0 exists early
    ops.push(match rng.below(5) {
        0 => Op::New(0),
        1 => Op::WithCapacity(0, rng.urange(0, 4)),
        2 => Op::With(0, small(rng)),
        3 => Op::WithAll(0, vals(rng, n).into_iter().take(3).collect()),
        _ => Op::FromVec(0, vals(rng, n)),
    });
    for _ in 1..len {
        let s = *rng.pick(&[0usize, 0, 0, 1, 1, 2]);
        let t = rng.urange(0, SLOTS - 1);
        ops.push(match rng.below(30) {
            0 => Op::New(s),
            1 => Op::WithCapacity(s, rng.urange(0, 4)),
            2 => Op::With(s, small(rng)),
            3 => Op::WithAll(s, vals(rng, n).into_iter().take(3).collect()),
            4 => Op::FromVec(s, vals(rng, n)),
            5..=9 => Op::Push(s, small(rng)),
            10 | 11 => Op::Extend(s, vals(rng, n)),
            12 => Op::Clear(s),
            13 | 14 => Op::Retain(s, 1 + rng.below(3) as u8, rng.below(3) as u8),
            15 | 16 if rng.chance(1, 8) => Op::RetainPanic(s, 1 + rng.below(3) as u8, rng.below(3) as u8, rng.below(4) as u8, rng.coin()),
            15 | 16 => Op::RetainMut(s, 1 + rng.below(3) as u8, rng.below(3) as u8, rng.below(3) as u8),
            17 | 18 => Op::Dedup(s),
            19 => Op::Sort(s),
            20 => Op::SortDesc(s),
            21 => Op::CloneTo(s, t),
            22 => Op::Eq(s, t),
            23 => Op::Cmp(s, t),
            24 => Op::HashOf(s),
            25 => Op::Index(s, rng.urange(0, 3)),
            26 => Op::IndexMut(s, rng.urange(0, 3), small(rng)),
            27 => {
                if rng.coin() {
                    Op::Iter(s)
                } else {
                    Op::IterMut(s, 1)
                }
            }
            28 => match rng.below(6) {
                0 => Op::IntoIterNth(s, rng.urange(0, 3)),
                1 => Op::IntoIterSkip(s, rng.urange(0, 3)),
                2 => Op::IntoIterStep(s, rng.urange(1, 3)),
                _ => Op::IntoIter(s, if rng.chance(1, 4) { usize::MAX } else { rng.urange(0, 4) }),
            },
            _ => Op::Drop(s),
        });
    }
    // now and then one vector gets long: lengths around 2^7, 2^8 and 2^9 (the length of the
    // inline representation is kept in a byte)
    if rng.chance(1, 12) && !ops.is_empty() {
        let at = rng.urange(0, ops.len() - 1);
        let len = *rng.pick(&[126usize, 127, 128, 129, 254, 255, 256, 257, 258, 259, 511, 512, 513]);
        let big: Vec<u8> = (0..len).map(|_| rng.below(4) as u8).collect();
        let slot = rng.urange(0, SLOTS - 1);
        ops.insert(at, if rng.coin() { Op::Extend(slot, big) } else { Op::FromVec(slot, big) });
    }
    let zst = rng.chance(1, 8);
    SvecCheck { prop: prop.to_string(), n, tracked, zst, ops }
}
