//! The simulated allocator (E4, E5 of DESIGN.md). It is the `#[global_allocator]` of
//! the harness binary. Outside a *zone* it forwards to `System`. Inside a zone every
//! request is served from a large `PROT_NONE` reservation at a fixed address, each
//! block on its own pages, flush against a guard page on the side a coin decides,
//! with canaries in the slack, poison in non-zeroed memory, freed pages re-protected
//! (or, by plan, handed back at the same address), and optional failure of the k-th
//! request. Worker processes are single-threaded; the zone is only ever entered there.

#![allow(static_mut_refs)]

use std::alloc::{GlobalAlloc, Layout, System};
use std::sync::atomic::{AtomicBool, AtomicU64, Ordering};

pub const ARENA_BASE: usize = 0x5000_0000_0000;
pub const ARENA_SIZE: usize = 64 << 30;
const PAGE: usize = 4096;
const MAX_BLOCKS: usize = 8192;
const CANARY: u8 = 0xC7;
const POISON: u8 = 0xA5;

#[derive(Clone, Copy)]
pub struct Block {
    pub user: usize,
    pub size: usize,
    pub align: usize,
    pub base: usize,
    pub pages: usize,
    pub right: bool,
    pub freed: bool,
    pub zeroed: bool,
}

const EMPTY: Block = Block { user: 0, size: 0, align: 0, base: 0, pages: 0, right: false, freed: false, zeroed: false };

#[derive(Clone, Copy, Default, Debug)]
pub struct Stats {
    pub requests: u64,
    pub bytes: u64,
    pub zeroed: u64,
    pub frees: u64,
    pub failed: u64,
    pub right_placed: u64,
    pub left_placed: u64,
    pub reused: u64,
    pub canary_hits: u64,
    pub size_mismatch: u64,
    pub unknown_free: u64,
    pub overflow: u64,
    pub leaked_at_reset: u64,
}

struct State {
    mapped: bool,
    next: usize,
    nblocks: usize,
    seed: u64,
    reuse: bool,
    fail_at: u64, // 0 = never
    stats: Stats,
    canary_detail: [u8; 96],
    canary_detail_len: usize,
}

static ZONE: AtomicBool = AtomicBool::new(false);
static COUNTING: AtomicBool = AtomicBool::new(false);
static COUNT_REQS: AtomicU64 = AtomicU64::new(0);
static COUNT_BYTES: AtomicU64 = AtomicU64::new(0);

#[inline]
fn count(layout: Layout) {
    if COUNTING.load(Ordering::Relaxed) {
        COUNT_REQS.fetch_add(1, Ordering::Relaxed);
        COUNT_BYTES.fetch_add(layout.size() as u64, Ordering::Relaxed);
    }
}

/// Start counting allocation requests (a deterministic cost measure; no guarding).
pub fn count_begin() {
    COUNT_REQS.store(0, Ordering::Relaxed);
    COUNT_BYTES.store(0, Ordering::Relaxed);
    COUNTING.store(true, Ordering::Relaxed);
}

pub fn count_end() -> (u64, u64) {
    COUNTING.store(false, Ordering::Relaxed);
    (COUNT_REQS.load(Ordering::Relaxed), COUNT_BYTES.load(Ordering::Relaxed))
}
static mut ST: State = State {
    mapped: false,
    next: 0,
    nblocks: 0,
    seed: 0,
    reuse: false,
    fail_at: 0,
    stats: Stats {
        requests: 0,
        bytes: 0,
        zeroed: 0,
        frees: 0,
        failed: 0,
        right_placed: 0,
        left_placed: 0,
        reused: 0,
        canary_hits: 0,
        size_mismatch: 0,
        unknown_free: 0,
        overflow: 0,
        leaked_at_reset: 0,
    },
    canary_detail: [0; 96],
    canary_detail_len: 0,
};
static mut BLOCKS: [Block; MAX_BLOCKS] = [EMPTY; MAX_BLOCKS];

pub struct GuardAlloc;

fn harness_fail(msg: &str) -> ! {
    // Allocator-internal failure: a harness error, never a verdict.
    unsafe {
        let m = b"HARNESS-ERROR galloc: ";
        libc::write(2, m.as_ptr() as *const _, m.len());
        libc::write(2, msg.as_ptr() as *const _, msg.len());
        libc::write(2, b"\n".as_ptr() as *const _, 1);
        libc::_exit(2);
    }
}

unsafe fn map_arena() {
    let p = libc::mmap(
        ARENA_BASE as *mut _,
        ARENA_SIZE,
        libc::PROT_NONE,
        libc::MAP_PRIVATE | libc::MAP_ANONYMOUS | libc::MAP_NORESERVE | libc::MAP_FIXED_NOREPLACE,
        -1,
        0,
    );
    if p as usize != ARENA_BASE {
        harness_fail("cannot reserve arena at fixed address");
    }
    ST.mapped = true;
    ST.next = ARENA_BASE + PAGE;
}

fn coin() -> bool {
    unsafe {
        ST.seed = ST.seed.wrapping_add(0x9e3779b97f4a7c15);
        let mut z = ST.seed;
        z = (z ^ (z >> 30)).wrapping_mul(0xbf58476d1ce4e5b9);
        z = (z ^ (z >> 27)).wrapping_mul(0x94d049bb133111eb);
        (z ^ (z >> 31)) & 1 == 1
    }
}

unsafe fn place(b: &mut Block) {
    let span = b.pages * PAGE;
    if b.right {
        let end = b.base + span;
        b.user = (end - b.size) & !(b.align - 1);
    } else {
        b.user = b.base;
    }
    // canaries in the slack on both sides of the user block
    let left = b.user - b.base;
    let right = b.base + span - (b.user + b.size);
    std::ptr::write_bytes(b.base as *mut u8, CANARY, left);
    std::ptr::write_bytes((b.user + b.size) as *mut u8, CANARY, right);
}

unsafe fn zone_alloc(layout: Layout, zeroed: bool) -> *mut u8 {
    if !ST.mapped {
        map_arena();
    }
    ST.stats.requests += 1;
    ST.stats.bytes += layout.size() as u64;
    if zeroed {
        ST.stats.zeroed += 1;
    }
    if ST.fail_at != 0 && ST.stats.requests == ST.fail_at {
        ST.stats.failed += 1;
        return std::ptr::null_mut();
    }
    let size = layout.size().max(1);
    let align = layout.align();
    if align > PAGE {
        ST.stats.overflow += 1;
        return if zeroed { System.alloc_zeroed(layout) } else { System.alloc(layout) };
    }
    // same-address reuse, if the plan says so
    if ST.reuse {
        let mut i = ST.nblocks;
        while i > 0 {
            i -= 1;
            let b = &mut BLOCKS[i];
            if b.freed && b.size == size && b.align == align {
                if libc::mprotect(b.base as *mut _, b.pages * PAGE, libc::PROT_READ | libc::PROT_WRITE) != 0 {
                    harness_fail("mprotect RW (reuse) failed");
                }
                b.freed = false;
                b.zeroed = zeroed;
                place(b);
                std::ptr::write_bytes(b.user as *mut u8, if zeroed { 0 } else { POISON }, size);
                ST.stats.reused += 1;
                return b.user as *mut u8;
            }
        }
    }
    let pages = (size + PAGE - 1) / PAGE;
    if ST.nblocks >= MAX_BLOCKS || ST.next + (pages + 1) * PAGE > ARENA_BASE + ARENA_SIZE {
        ST.stats.overflow += 1;
        return if zeroed { System.alloc_zeroed(layout) } else { System.alloc(layout) };
    }
    let base = ST.next;
    ST.next += (pages + 1) * PAGE;
    if libc::mprotect(base as *mut _, pages * PAGE, libc::PROT_READ | libc::PROT_WRITE) != 0 {
        harness_fail("mprotect RW failed");
    }
    let mut b = Block { user: 0, size, align, base, pages, right: coin(), freed: false, zeroed };
    if b.right {
        ST.stats.right_placed += 1;
    } else {
        ST.stats.left_placed += 1;
    }
    place(&mut b);
    if !zeroed {
        std::ptr::write_bytes(b.user as *mut u8, POISON, size);
    }
    BLOCKS[ST.nblocks] = b;
    ST.nblocks += 1;
    b.user as *mut u8
}

unsafe fn check_canaries(b: &Block) -> bool {
    let span = b.pages * PAGE;
    let left = b.user - b.base;
    let right = b.base + span - (b.user + b.size);
    let l = std::slice::from_raw_parts(b.base as *const u8, left);
    let r = std::slice::from_raw_parts((b.user + b.size) as *const u8, right);
    l.iter().all(|&x| x == CANARY) && r.iter().all(|&x| x == CANARY)
}

unsafe fn arena_free(ptr: *mut u8, layout: Layout) {
    let p = ptr as usize;
    let mut i = ST.nblocks;
    while i > 0 {
        i -= 1;
        let b = &mut BLOCKS[i];
        if b.user == p && !b.freed {
            ST.stats.frees += 1;
            if b.size != layout.size().max(1) || b.align != layout.align() {
                ST.stats.size_mismatch += 1;
            }
            if !check_canaries(b) {
                ST.stats.canary_hits += 1;
                if ST.canary_detail_len == 0 {
                    let s = b"canary overwritten next to block";
                    ST.canary_detail[..s.len()].copy_from_slice(s);
                    ST.canary_detail_len = s.len();
                }
            }
            if libc::mprotect(b.base as *mut _, b.pages * PAGE, libc::PROT_NONE) != 0 {
                harness_fail("mprotect NONE failed");
            }
            b.freed = true;
            return;
        }
    }
    // A pointer into the arena we do not know: double free or a block from before a reset.
    ST.stats.unknown_free += 1;
}

unsafe impl GlobalAlloc for GuardAlloc {
    unsafe fn alloc(&self, layout: Layout) -> *mut u8 {
        count(layout);
        if ZONE.load(Ordering::Relaxed) {
            zone_alloc(layout, false)
        } else {
            System.alloc(layout)
        }
    }

    unsafe fn alloc_zeroed(&self, layout: Layout) -> *mut u8 {
        count(layout);
        if ZONE.load(Ordering::Relaxed) {
            let p = zone_alloc(layout, true);
            // E10: this call is reached from JIT code through hpbf_context_extend
            crate::peer::clobber_caller_saved(0xdead_beef_0bad_f00d);
            p
        } else {
            System.alloc_zeroed(layout)
        }
    }

    unsafe fn dealloc(&self, ptr: *mut u8, layout: Layout) {
        let p = ptr as usize;
        if p >= ARENA_BASE && p < ARENA_BASE + ARENA_SIZE && ST.mapped {
            arena_free(ptr, layout)
        } else {
            System.dealloc(ptr, layout)
        }
    }

    unsafe fn realloc(&self, ptr: *mut u8, layout: Layout, new_size: usize) -> *mut u8 {
        let p = ptr as usize;
        let in_arena = p >= ARENA_BASE && p < ARENA_BASE + ARENA_SIZE && ST.mapped;
        if !in_arena && !ZONE.load(Ordering::Relaxed) {
            if COUNTING.load(Ordering::Relaxed) {
                count(Layout::from_size_align_unchecked(new_size.saturating_sub(layout.size()), layout.align()));
            }
            return System.realloc(ptr, layout, new_size);
        }
        let new_layout = Layout::from_size_align_unchecked(new_size, layout.align());
        let n = self.alloc(new_layout);
        if !n.is_null() {
            std::ptr::copy_nonoverlapping(ptr, n, layout.size().min(new_size));
            self.dealloc(ptr, layout);
        }
        n
    }
}

/// Enter the zone with the given plan. Not re-entrant.
pub fn zone_enter(seed: u64, reuse: bool, fail_at: Option<u64>) {
    unsafe {
        ST.seed = seed;
        ST.reuse = reuse;
        ST.fail_at = fail_at.unwrap_or(0);
    }
    ZONE.store(true, Ordering::Relaxed);
}

pub fn zone_exit() {
    ZONE.store(false, Ordering::Relaxed);
}

pub fn in_zone() -> bool {
    ZONE.load(Ordering::Relaxed)
}

/// Run harness code with the zone switched off (callbacks from hpbf into the harness).
#[inline]
pub fn suspend<R>(f: impl FnOnce() -> R) -> R {
    let was = ZONE.swap(false, Ordering::Relaxed);
    let r = f();
    ZONE.store(was, Ordering::Relaxed);
    r
}

/// Run `f` with the zone switched on (if `active`), restoring the previous state after.
#[inline]
pub fn with_zone<R>(active: bool, f: impl FnOnce() -> R) -> R {
    if !active {
        return f();
    }
    let was = ZONE.swap(true, Ordering::Relaxed);
    let r = f();
    ZONE.store(was, Ordering::Relaxed);
    r
}

/// Set the plan without switching the zone on.
pub fn set_plan(seed: u64, reuse: bool, fail_at: Option<u64>) {
    unsafe {
        ST.seed = seed;
        ST.reuse = reuse;
        ST.fail_at = fail_at.unwrap_or(0);
    }
}

pub fn stats() -> Stats {
    unsafe { ST.stats }
}

pub fn requests() -> u64 {
    unsafe { ST.stats.requests }
}

/// Live (not freed) in-arena blocks: (user address, size).
pub fn live_blocks() -> Vec<(usize, usize)> {
    suspend(|| unsafe {
        (0..ST.nblocks).filter(|&i| !BLOCKS[i].freed).map(|i| (BLOCKS[i].user, BLOCKS[i].size)).collect()
    })
}

/// All blocks of the current run in request order: (user, size, freed).
pub fn all_blocks() -> Vec<(usize, usize, bool)> {
    suspend(|| unsafe { (0..ST.nblocks).map(|i| (BLOCKS[i].user, BLOCKS[i].size, BLOCKS[i].freed)).collect() })
}

/// Forget the run: re-protect the used part of the arena in one call (the kernel
/// merges it back into one mapping) and zero the counters.
pub fn reset() {
    unsafe {
        let mut leaked = 0;
        for i in 0..ST.nblocks {
            if !BLOCKS[i].freed {
                leaked += 1;
            }
        }
        if ST.mapped && ST.next > ARENA_BASE + PAGE {
            let len = ST.next - ARENA_BASE;
            let p = libc::mmap(
                ARENA_BASE as *mut _,
                len,
                libc::PROT_NONE,
                libc::MAP_PRIVATE | libc::MAP_ANONYMOUS | libc::MAP_NORESERVE | libc::MAP_FIXED,
                -1,
                0,
            );
            if p as usize != ARENA_BASE {
                harness_fail("arena reset failed");
            }
            ST.next = ARENA_BASE + PAGE;
        }
        ST.nblocks = 0;
        ST.stats = Stats::default();
        ST.stats.leaked_at_reset = leaked;
        ST.canary_detail_len = 0;
    }
}

/// Classify a faulting address (async-signal-safe: reads statics only).
/// Returns (class, block index, block size): class 0 = not in arena, 1 = guard page
/// left of a block, 2 = guard page right of a block, 3 = inside a freed block,
/// 4 = arena but unallocated.
pub fn classify(addr: usize) -> (u8, usize, usize) {
    unsafe {
        if !ST.mapped || addr < ARENA_BASE || addr >= ARENA_BASE + ARENA_SIZE {
            return (0, 0, 0);
        }
        for i in 0..ST.nblocks {
            let b = &BLOCKS[i];
            let end = b.base + b.pages * PAGE;
            if addr >= b.base && addr < end {
                return (3, i, b.size);
            }
            if addr >= end && addr < end + PAGE {
                // right guard of block i (= left guard of block i+1): attribute by distance
                if i + 1 < ST.nblocks && !BLOCKS[i + 1].right && BLOCKS[i].right == false {
                    return (1, i + 1, BLOCKS[i + 1].size);
                }
                return (2, i, b.size);
            }
            if addr >= b.base - PAGE && addr < b.base {
                return (1, i, b.size);
            }
        }
        (4, 0, 0)
    }
}
