//! The single source of randomness. Everything a run decides is drawn from one
//! SplitMix64 stream seeded from (VERIF_SEED, property, run index).
//! Never draw from logging paths.

#[derive(Clone, Debug)]
pub struct Rng {
    s: u64,
}

pub fn mix64(mut z: u64) -> u64 {
    z = z.wrapping_add(0x9e3779b97f4a7c15);
    z = (z ^ (z >> 30)).wrapping_mul(0xbf58476d1ce4e5b9);
    z = (z ^ (z >> 27)).wrapping_mul(0x94d049bb133111eb);
    z ^ (z >> 31)
}

/// FNV-1a 64, used for stable hashing of strings / byte strings (never std's
/// randomly keyed hasher in anything that feeds a decision or a report).
pub fn fnv(bytes: &[u8]) -> u64 {
    let mut h: u64 = 0xcbf29ce484222325;
    for &b in bytes {
        h ^= b as u64;
        h = h.wrapping_mul(0x100000001b3);
    }
    h
}

pub fn run_seed(verif_seed: u64, prop: &str, i: u64) -> u64 {
    mix64(mix64(verif_seed ^ fnv(prop.as_bytes())).wrapping_add(mix64(i.wrapping_mul(0x2545f4914f6cdd1d))))
}

impl Rng {
    pub fn new(seed: u64) -> Self {
        Rng { s: seed }
    }

    pub fn next(&mut self) -> u64 {
        self.s = self.s.wrapping_add(0x9e3779b97f4a7c15);
        let mut z = self.s;
        z = (z ^ (z >> 30)).wrapping_mul(0xbf58476d1ce4e5b9);
        z = (z ^ (z >> 27)).wrapping_mul(0x94d049bb133111eb);
        z ^ (z >> 31)
    }

    /// Uniform in 0..n (n > 0). Modulo bias is irrelevant here.
    pub fn below(&mut self, n: u64) -> u64 {
        debug_assert!(n > 0);
        self.next() % n
    }

    /// Uniform in lo..=hi.
    pub fn range(&mut self, lo: i64, hi: i64) -> i64 {
        debug_assert!(lo <= hi);
        lo + self.below((hi - lo + 1) as u64) as i64
    }

    pub fn urange(&mut self, lo: usize, hi: usize) -> usize {
        self.range(lo as i64, hi as i64) as usize
    }

    /// True with probability num/den.
    pub fn chance(&mut self, num: u64, den: u64) -> bool {
        self.below(den) < num
    }

    pub fn coin(&mut self) -> bool {
        self.next() & 1 == 1
    }

    pub fn pick<'a, T>(&mut self, xs: &'a [T]) -> &'a T {
        &xs[self.below(xs.len() as u64) as usize]
    }

    /// Pick an index according to integer weights.
    pub fn weighted(&mut self, w: &[u32]) -> usize {
        let total: u64 = w.iter().map(|&x| x as u64).sum();
        let mut r = self.below(total.max(1));
        for (i, &x) in w.iter().enumerate() {
            if r < x as u64 {
                return i;
            }
            r -= x as u64;
        }
        w.len() - 1
    }

    /// A fork whose stream is independent from the parent's subsequent draws.
    pub fn fork(&mut self) -> Rng {
        Rng::new(mix64(self.next()))
    }
}
