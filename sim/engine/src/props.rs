//! Per-property workload: turns one run seed into a list of checks (DESIGN.md §5).

use crate::case::{AllocPlan, Backend, Case, Mode};
use crate::check::{Check, Kind};
use crate::gen::{self, Family};
use crate::peer::{Fault, Peer};
use crate::refmodel::{self, Limits, Status};
use crate::rng::Rng;

#[derive(Clone, Copy, Debug, PartialEq, Eq)]
pub enum Tier {
    Quick,
    Thorough,
}

pub struct GenEnv {
    pub corpus: Vec<String>,
    pub tier: Tier,
}

impl GenEnv {
    pub fn new(tier: Tier) -> GenEnv {
        GenEnv { corpus: gen::load_corpus(), tier }
    }

    fn ref_steps(&self) -> u64 {
        match self.tier {
            Tier::Quick => 200_000,
            Tier::Thorough => 2_000_000,
        }
    }

    fn exec_cap(&self) -> u64 {
        match self.tier {
            Tier::Quick => 400_000,
            Tier::Thorough => 4_000_000,
        }
    }
}

pub const WIDTHS: [u32; 4] = [8, 16, 32, 64];

fn pick_family(rng: &mut Rng, w: &[(Family, u32)]) -> Family {
    let weights: Vec<u32> = w.iter().map(|x| x.1).collect();
    w[rng.weighted(&weights)].0
}

pub struct Scenario {
    pub family: Family,
    pub program: String,
    pub width: u32,
    pub peer: Peer,
}

fn scenario(rng: &mut Rng, env: &GenEnv, fams: &[(Family, u32)]) -> Scenario {
    let family = pick_family(rng, fams);
    let width = *rng.pick(&WIDTHS);
    let program = gen::program(rng, family, width, &env.corpus, env.tier == Tier::Thorough);
    let mut peer = Peer::generate(rng);
    if family == Family::Pressure {
        // the counter read by the pressure loop must stay small
        peer.mask = peer.mask.min(0x03);
    }
    if family == Family::IoPressure {
        peer.mask = peer.mask.min(0x0f);
        while peer.script.len() < 12 {
            peer.script.push(rng.below(16) as u8);
        }
    }
    Scenario { family, program, width, peer }
}

fn base_case(s: &Scenario, backend: Backend, level: u32, rng: &mut Rng) -> Case {
    Case {
        program: s.program.clone(),
        width: s.width,
        backend,
        level,
        mode: Mode::Execute,
        peer: s.peer.clone(),
        fault: Fault::None,
        pregrow: None,
        far_move: None,
        junk: rng.next() | 1,
        alloc: AllocPlan::OFF,
        hash_seed: rng.next(),
        max_events: 1 << 16,
    }
}

fn random_pregrow(rng: &mut Rng) -> Option<(i64, i64)> {
    match rng.below(4) {
        0 => None,
        1 => Some((rng.range(0, 8), rng.range(1, 8))),
        2 => Some((rng.range(0, 300), rng.range(1, 300))),
        _ => Some((rng.range(0, 5000), rng.range(1, 5000))),
    }
}

fn guard_plan(rng: &mut Rng) -> AllocPlan {
    AllocPlan { guard: true, seed: rng.next(), reuse: rng.chance(1, 4), fail_at: None }
}

const EQUIV_FAMS: &[(Family, u32)] = &[
    (Family::Long, 1),
    (Family::Explosive, 2),
    (Family::Nested, 1),
    (Family::Idioms, 3),
    (Family::IoPressure, 2),
    (Family::Brackets, 1),
    (Family::Raw, 4),
    (Family::Corpus, 3),
    (Family::Structured, 7),
    (Family::Roamer, 2),
    (Family::Pressure, 1),
    (Family::Divergent, 1),
];

const JIT_FAMS: &[(Family, u32)] = &[
    (Family::Explosive, 2),
    (Family::Nested, 1),
    (Family::Long, 1),
    (Family::Idioms, 3),
    (Family::IoPressure, 5),
    (Family::Brackets, 1),
    (Family::Raw, 3),
    (Family::Corpus, 2),
    (Family::Structured, 5),
    (Family::Roamer, 2),
    (Family::Pressure, 5),
];

const ROAM_FAMS: &[(Family, u32)] = &[
    (Family::IoPressure, 2),
    (Family::Idioms, 3),
    (Family::Raw, 2),
    (Family::Corpus, 1),
    (Family::Structured, 2),
    (Family::Roamer, 8),
    (Family::Pressure, 1),
];

const DIV_FAMS: &[(Family, u32)] = &[
    (Family::Explosive, 1),
    (Family::Brackets, 5),
    (Family::Divergent, 8),
    (Family::Raw, 4),
    (Family::Structured, 2),
    (Family::Corpus, 2),
];

const BC_FAMS: &[(Family, u32)] = &[
    (Family::Explosive, 2),
    (Family::Nested, 1),
    (Family::Long, 1),
    (Family::Idioms, 3),
    (Family::IoPressure, 2),
    (Family::Brackets, 1),
    (Family::Raw, 4),
    (Family::Corpus, 3),
    (Family::Structured, 7),
    (Family::Roamer, 2),
    (Family::Pressure, 1),
    (Family::Divergent, 1),
];

fn levels_for(rng: &mut Rng, backend: Backend, with_high: bool) -> Vec<u32> {
    if backend == Backend::Inplace {
        return vec![0];
    }
    let mut l = vec![0, 1, 2, 3];
    if with_high {
        l.push(*rng.pick(&[4u32, 5, 7, 1000, u32::MAX]));
    }
    l
}

fn mk(prop: &str, kind: Kind, case: Case, env: &GenEnv) -> Check {
    Check { prop: prop.to_string(), kind, case, ref_steps: env.ref_steps(), exec_cap: env.exec_cap() }
}

/// All checks of run `seed` of property `prop`.
pub fn make_checks(prop: &str, rng: &mut Rng, env: &GenEnv) -> (Vec<Check>, String) {
    let mut out = Vec::new();
    let fam_name;
    match prop {
        "C01" | "C02" | "C03" | "C04" => {
            let (backend, fams) = match prop {
                "C01" => (Backend::IrInt, EQUIV_FAMS),
                "C02" => (Backend::BcInt, BC_FAMS),
                "C03" => (Backend::BaseJit, JIT_FAMS),
                _ => (Backend::Inplace, EQUIV_FAMS),
            };
            let s = scenario(rng, env, fams);
            fam_name = s.family.name().to_string();
            let guard = rng.chance(1, 10);
            for level in levels_for(rng, backend, prop == "C01") {
                let mut c = base_case(&s, backend, level, rng);
                if prop == "C03" || rng.chance(1, 4) {
                    c.pregrow = random_pregrow(rng);
                }
                if guard {
                    c.alloc = guard_plan(rng);
                }
                out.push(mk(prop, Kind::Equiv, c, env));
            }
        }
        "C06" => {
            let s = scenario(rng, env, ROAM_FAMS);
            fam_name = s.family.name().to_string();
            for backend in Backend::ALL {
                let levels: Vec<u32> = if backend == Backend::Inplace { vec![0] } else { vec![*rng.pick(&[0u32, 1]), *rng.pick(&[2u32, 3])] };
                for level in levels {
                    let mut c = base_case(&s, backend, level, rng);
                    c.pregrow = random_pregrow(rng);
                    c.alloc = guard_plan(rng);
                    out.push(mk(prop, Kind::Equiv, c, env));
                }
            }
        }
        "C07" => {
            let fams = if rng.chance(1, 4) { DIV_FAMS } else { EQUIV_FAMS };
            let s = scenario(rng, env, fams);
            fam_name = s.family.name().to_string();
            let r = refmodel::run(
                &s.program,
                s.width,
                &s.peer,
                Limits { max_steps: env.ref_steps(), max_events: 1 << 16, min_events_on_cycle: 0, accelerate: true, mute_output: false },
            );
            let mut budgets: Vec<u64> = vec![0, 1, 2, 3];
            budgets.push(rng.below(33));
            budgets.push(rng.below(33));
            let mut b = 32u64;
            while b < (1 << 20) {
                b = b * 2 + rng.below(b);
                budgets.push(b.min(1 << 20));
            }
            // the exact neighbourhood of the number of canonical back-edge decisions
            for d in [0u64, 1, 2] {
                budgets.push(r.backedges.saturating_add(d));
                budgets.push(r.backedges.saturating_sub(d));
            }
            if r.status == Status::Halted && r.canon_steps <= env.exec_cap() {
                budgets.push(1 << 62);
                budgets.push(u64::MAX >> 1);
                // budgets around the 32-bit boundaries of the counter
                for b in [(1u64 << 31) - 1, 1 << 31, (1 << 31) + 1, (1 << 32) - 1, 1 << 32, (1 << 32) + 1, (1 << 32) + 3, (1 << 40) + 3] {
                    if rng.chance(1, 2) {
                        budgets.push(b);
                    }
                }
            }
            budgets.sort();
            budgets.dedup();
            for backend in Backend::ALL {
                let level = if backend == Backend::Inplace { 0 } else { rng.below(4) as u32 };
                for &b in &budgets {
                    if b > (1 << 20) && !(r.status == Status::Halted && r.canon_steps <= env.exec_cap()) {
                        continue;
                    }
                    let mut c = base_case(&s, backend, level, rng);
                    c.mode = Mode::Limited(b);
                    out.push(mk(prop, Kind::Budget, c, env));
                }
            }
        }
        "C08" => {
            let s = scenario(rng, env, EQUIV_FAMS);
            fam_name = s.family.name().to_string();
            let r = refmodel::run(
                &s.program,
                s.width,
                &s.peer,
                Limits { max_steps: env.ref_steps(), max_events: 1 << 16, min_events_on_cycle: 64, accelerate: true, mute_output: false },
            );
            let ok = matches!(r.status, Status::Halted | Status::Cycle { io_in_cycle: true }) && r.canon_steps <= env.exec_cap();
            if ok && !r.events.is_empty() {
                let n_in = r.events.iter().filter(|e| matches!(e, crate::peer::Ev::In(_))).count();
                let n_out = r.events.len() - n_in;
                let mut faults = vec![Fault::NoReader, Fault::NoWriter];
                let enumerate = r.events.len() <= 256;
                if enumerate {
                    for k in 0..n_in {
                        faults.push(Fault::InErr { at: k, kind: rng.below(5) as u8 });
                    }
                    for k in 0..n_out {
                        faults.push(Fault::OutRefuse { at: k, kind: 0 });
                        faults.push(Fault::OutRefuse { at: k, kind: 1 + rng.below(5) as u8 });
                    }
                } else {
                    for _ in 0..64 {
                        if n_in > 0 {
                            faults.push(Fault::InErr { at: rng.below(n_in as u64) as usize, kind: rng.below(5) as u8 });
                        }
                        if n_out > 0 {
                            faults.push(Fault::OutRefuse { at: rng.below(n_out as u64) as usize, kind: rng.below(6) as u8 });
                        }
                    }
                }
                for backend in Backend::ALL {
                    let levels: Vec<u32> = if backend == Backend::Inplace { vec![0] } else { vec![*rng.pick(&[0u32, 1]), *rng.pick(&[2u32, 3])] };
                    for level in levels {
                        for &f in &faults {
                            if r.status != Status::Halted && matches!(f, Fault::NoWriter | Fault::NoReader) {
                                continue;
                            }
                            let mut c = base_case(&s, backend, level, rng);
                            c.fault = f;
                            out.push(mk(prop, Kind::IoFault, c, env));
                        }
                    }
                }
            }
        }
        "C05" => {
            let s = scenario(rng, env, DIV_FAMS);
            fam_name = s.family.name().to_string();
            let r = refmodel::run(
                &s.program,
                s.width,
                &s.peer,
                Limits { max_steps: env.ref_steps(), max_events: 1 << 16, min_events_on_cycle: 0, accelerate: true, mute_output: false },
            );
            for backend in Backend::ALL {
                let levels: Vec<u32> = if backend == Backend::Inplace { vec![0] } else { vec![0, 1, 2, 3] };
                for level in levels {
                    let c = base_case(&s, backend, level, rng);
                    match r.status {
                        Status::Cycle { .. } => out.push(mk(prop, Kind::Diverge, c, env)),
                        Status::Halted => out.push(mk(prop, Kind::Equiv, c, env)),
                        _ => {}
                    }
                }
            }
        }
        "C10" => {
            let s = scenario(rng, env, ROAM_FAMS);
            fam_name = s.family.name().to_string();
            let r = refmodel::run(
                &s.program,
                s.width,
                &s.peer,
                Limits { max_steps: env.ref_steps(), max_events: 1 << 16, min_events_on_cycle: 0, accelerate: true, mute_output: false },
            );
            if r.status == Status::Halted && r.canon_steps <= env.exec_cap() {
                let margin = s.program.len() as i64 + 1;
                let bytes = (s.width / 8) as i64;
                let below = -r.lo + margin + rng.range(0, 3);
                let mut above = r.hi + margin + 1 + rng.range(0, 3);
                // round the region up to whole pages so that both ends touch a guard page
                let total = (below + above) * bytes;
                let rounded = (total + 4095) / 4096 * 4096;
                above += (rounded - total) / bytes;
                for backend in [Backend::BcInt, Backend::BaseJit] {
                    for level in [0u32, 1, 2, 3] {
                        let mut c = base_case(&s, backend, level, rng);
                        c.mode = Mode::Unsafe;
                        c.pregrow = Some((below, above));
                        c.alloc = guard_plan(rng);
                        out.push(mk(prop, Kind::Static, c, env));
                    }
                }
            }
        }
        "C17" => {
            let s = scenario(rng, env, ROAM_FAMS);
            fam_name = s.family.name().to_string();
            let r = refmodel::run(
                &s.program,
                s.width,
                &s.peer,
                Limits { max_steps: env.ref_steps(), max_events: 1 << 16, min_events_on_cycle: 0, accelerate: true, mute_output: false },
            );
            if r.status == Status::Halted && r.canon_steps <= env.exec_cap() {
                for backend in Backend::ALL {
                    let level = if backend == Backend::Inplace { 0 } else { rng.below(4) as u32 };
                    let mut c = base_case(&s, backend, level, rng);
                    c.alloc = guard_plan(rng);
                    if rng.coin() {
                        c.pregrow = random_pregrow(rng);
                    }
                    if rng.chance(1, 6) {
                        // a tape of some hundred thousand cells before the program starts: what a
                        // refused request means may depend on how much slack the growth asked for
                        // (one side is often short, so that the program walks off that end)
                        let side = |rng: &mut Rng| match rng.below(4) {
                            0 | 1 => rng.range(0, 8),
                            2 => rng.range(0, 400),
                            _ => rng.range(0, 400_000),
                        };
                        let (short, long) = (side(rng), rng.range(100_000, 400_000));
                        c.pregrow = Some(if rng.coin() { (short, long) } else { (long, short + 1) });
                    }
                    c.max_events = r.events.len() + 64;
                    // fault-free run under the same plan tells how many requests there are
                    let o = crate::exec::execute(&c);
                    let n = o.alloc.requests;
                    let ks: Vec<u64> = if n <= 24 { (1..=n).collect() } else { (0..24).map(|_| 1 + rng.below(n)).collect() };
                    for k in ks {
                        let mut ck = c.clone();
                        ck.alloc.fail_at = Some(k);
                        out.push(mk(prop, Kind::AllocFail, ck, env));
                    }
                    if rng.chance(1, 3) {
                        // the same clause through each executor: the pointer is parked where no
                        // allocation can reach (abort, or panic for byte sizes beyond isize::MAX),
                        // the panic is caught and the context dropped under the guard allocator
                        let mut cf = c.clone();
                        cf.program = rng.pick(&["+.", ",.", ">+<-.", "-[.-]", "+[>+<-]>."]).to_string();
                        let exp = if rng.coin() { rng.range(60, 62) } else { rng.range(44, 62) };
                        let d = (1i64 << exp) + *rng.pick(&[0i64, 1, -1, 4096]);
                        cf.far_move = Some(if rng.coin() { d } else { -d });
                        // the context owns a tape already
                        cf.pregrow = Some((rng.range(0, 40), rng.range(1, 2000)));
                        cf.alloc.fail_at = None;
                        out.push(mk(prop, Kind::AllocFail, cf, env));
                    }
                }
            }
        }
        _ => {
            fam_name = "none".to_string();
        }
    }
    (out, fam_name)
}
