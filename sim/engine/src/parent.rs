//! Parent side: starts worker processes, collects results keyed by run index,
//! turns crashes and hangs into violations by deterministic re-execution, minimises,
//! writes replay files and the evidence file, prints VIOLATION / KNOWN-FINDING lines.

use std::collections::{BTreeMap, BTreeSet};
use std::io::{BufRead, BufReader, Write};
use std::path::{Path, PathBuf};
use std::process::{Child, ChildStdin, Command, Stdio};
use std::sync::mpsc::{channel, Receiver, RecvTimeoutError, Sender};
use std::time::{Duration, Instant};

use serde_json::{json, Value};

use crate::dispatch::AnyCheck;
use crate::props::Tier;
use crate::rng::fnv;

pub struct ParentArgs {
    pub prop: String,
    pub tier: Tier,
    pub seed: u64,
    pub count: u64,
    pub deadline_s: f64,
    /// (profile name, path of the `sim` binary built with that profile, number of workers)
    pub bins: Vec<(String, PathBuf, u64)>,
    pub verif_dir: PathBuf,
    pub level: String,
    pub hang_s: f64,
    pub write_evidence: bool,
    pub extra_assumptions: Vec<String>,
    pub rule: String,
    pub stubs: Value,
}

enum Msg {
    Line(usize, String),
    Eof(usize),
}

struct WorkerSlot {
    profile: usize,
    k: u64,
    child: Child,
    current: Option<u64>,
    began: Instant,
    began_cpu: f64,
    sig: Option<String>,
    done: bool,
    killed_for_hang: bool,
    restarts: u32,
    last_lines: Vec<String>,
    started_at: u64,
    last_e: Option<u64>,
}

#[derive(Clone, Debug)]
pub struct Found {
    pub profile: String,
    pub check: Value,
    pub class: String,
    pub at: u64,
    pub detail: String,
    pub run_index: u64,
}

fn spawn_worker(a: &ParentArgs, profile: usize, k: u64, start: u64, tx: &Sender<Msg>, id: usize) -> Child {
    let (_, bin, w) = &a.bins[profile];
    let mut child = Command::new(bin)
        .arg("worker")
        .arg(&a.prop)
        .arg(match a.tier {
            Tier::Quick => "quick",
            Tier::Thorough => "thorough",
        })
        .arg(a.seed.to_string())
        .arg(k.to_string())
        .arg(w.to_string())
        .arg(a.count.to_string())
        .arg(start.to_string())
        .arg(format!("{}", a.deadline_s))
        .stdin(Stdio::null())
        .stdout(Stdio::piped())
        .stderr(Stdio::inherit())
        .spawn()
        .unwrap_or_else(|e| harness_error(&format!("cannot start worker {:?}: {}", bin, e)));
    let out = child.stdout.take().unwrap();
    let tx = tx.clone();
    std::thread::spawn(move || {
        let r = BufReader::new(out);
        for line in r.lines() {
            match line {
                Ok(l) => {
                    if tx.send(Msg::Line(id, l)).is_err() {
                        return;
                    }
                }
                Err(_) => break,
            }
        }
        let _ = tx.send(Msg::Eof(id));
    });
    child
}

pub fn harness_error(msg: &str) -> ! {
    eprintln!("HARNESS-ERROR: {}", msg);
    std::process::exit(2);
}

/// A persistent judge process used for minimisation and replay.
pub struct Judge {
    bin: PathBuf,
    child: Option<Child>,
    stdin: Option<ChildStdin>,
    rx: Option<Receiver<Option<String>>>,
    pub timeout: Duration,
    pub evals: u64,
}

impl Judge {
    pub fn new(bin: &Path, timeout_s: f64) -> Judge {
        Judge { bin: bin.to_path_buf(), child: None, stdin: None, rx: None, timeout: Duration::from_secs_f64(timeout_s), evals: 0 }
    }

    fn start(&mut self) {
        let mut child = Command::new(&self.bin)
            .arg("judge-server")
            .stdin(Stdio::piped())
            .stdout(Stdio::piped())
            .stderr(Stdio::null())
            .spawn()
            .unwrap_or_else(|e| harness_error(&format!("cannot start judge: {}", e)));
        let out = child.stdout.take().unwrap();
        let (tx, rx) = channel();
        std::thread::spawn(move || {
            let r = BufReader::new(out);
            for line in r.lines() {
                match line {
                    Ok(l) => {
                        if tx.send(Some(l)).is_err() {
                            return;
                        }
                    }
                    Err(_) => break,
                }
            }
            let _ = tx.send(None);
        });
        self.stdin = child.stdin.take();
        self.child = Some(child);
        self.rx = Some(rx);
    }

    fn stop(&mut self) {
        if let Some(mut c) = self.child.take() {
            let _ = c.kill();
            let _ = c.wait();
        }
        self.stdin = None;
        self.rx = None;
    }

    /// Returns (class, at, detail). Crashes and hangs are classes too.
    pub fn eval(&mut self, check: &Value) -> (String, u64, String) {
        self.evals += 1;
        if self.child.is_none() {
            self.start();
        }
        let line = format!("{}\n", check);
        if self.stdin.as_mut().unwrap().write_all(line.as_bytes()).is_err() || self.stdin.as_mut().unwrap().flush().is_err() {
            self.stop();
            return ("harness-judge-broken".into(), 0, String::new());
        }
        let started = Instant::now();
        let pid = self.child.as_ref().map(|c| c.id()).unwrap_or(0);
        let cpu0 = cpu_seconds(pid).unwrap_or(0.0);
        let mut sig: Option<String> = None;
        loop {
            // hung = burnt `timeout` of CPU, or blocked for 15x that in wall-clock time
            let cpu = cpu_seconds(pid).map(|c| c - cpu0).unwrap_or(0.0);
            let runaway = rss_bytes(pid).map(|r| r > MEM_LIMIT).unwrap_or(false);
            let left = if cpu > self.timeout.as_secs_f64() || started.elapsed() > self.timeout * 15 || runaway {
                Duration::from_millis(0)
            } else {
                Duration::from_millis(200)
            };
            match self.rx.as_ref().unwrap().recv_timeout(left) {
                Ok(Some(l)) => {
                    if let Some(rest) = l.strip_prefix("V ") {
                        let mut it = rest.splitn(3, ' ');
                        let class = it.next().unwrap_or("?").to_string();
                        let at = it.next().and_then(|x| x.parse().ok()).unwrap_or(0);
                        let detail = it
                            .next()
                            .and_then(|j| serde_json::from_str::<Value>(j).ok())
                            .and_then(|v| v.get("detail").and_then(|d| d.as_str().map(|s| s.to_string())))
                            .unwrap_or_default();
                        return (class, at, detail);
                    } else if let Some(rest) = l.strip_prefix("SIG ") {
                        sig = Some(rest.to_string());
                    } else if l.starts_with("X ") {
                        return ("harness-bad-check".into(), 0, l);
                    }
                }
                Ok(None) => {
                    // process died
                    let status = self.child.as_mut().and_then(|c| c.wait().ok());
                    self.stop();
                    return (crash_class(sig.as_deref(), status.map(|s| format!("{:?}", s)).as_deref()), 0, sig.unwrap_or_default());
                }
                Err(RecvTimeoutError::Timeout) => {
                    if left.is_zero() {
                        self.stop();
                        let why = if runaway { format!("memory use above {} GiB and growing", MEM_LIMIT >> 30) } else { format!("no answer after {:?} of CPU time", self.timeout) };
                        return ("hang".into(), 0, why);
                    }
                }
                Err(RecvTimeoutError::Disconnected) => {
                    self.stop();
                    return ("harness-judge-broken".into(), 0, String::new());
                }
            }
        }
    }
}

impl Drop for Judge {
    fn drop(&mut self) {
        self.stop();
    }
}

/// Class name for a process death. `sig` is the payload of the worker's `SIG` line:
/// "<NAME> <addr hex> <class> <block> <size>".
pub fn crash_class(sig: Option<&str>, status: Option<&str>) -> String {
    if let Some(s) = sig {
        let f: Vec<&str> = s.split_whitespace().collect();
        let name = f.first().copied().unwrap_or("?");
        let class = f.get(2).and_then(|x| x.parse::<u8>().ok()).unwrap_or(0);
        let place = match class {
            1 => "-guard-left",
            2 => "-guard-right",
            3 => "-freed-or-protected-block",
            4 => "-arena-unallocated",
            _ => {
                // distinguish null-ish addresses from wild ones
                let addr = f.get(1).and_then(|x| usize::from_str_radix(x, 16).ok()).unwrap_or(usize::MAX);
                if name == "SEGV" && addr < (1 << 32) {
                    "-low-address"
                } else {
                    ""
                }
            }
        };
        format!("crash-{}{}", name, place)
    } else {
        format!("crash-exit-{}", status.unwrap_or("?").replace(' ', "_"))
    }
}

pub struct RunSummary {
    pub runs: u64,
    pub checks: u64,
    pub execs: u64,
    pub ref_steps: u64,
    pub nontrivial: BTreeSet<u64>,
    pub stats: BTreeMap<String, u64>,
    pub samples: Vec<Value>,
    pub found: Vec<Found>,
    pub crashes: Vec<(String, u64, Option<String>, bool, u64, u64)>, // profile, run index, sig line, hang?, stride k, worker start
    pub digests: BTreeMap<(String, u64), String>,
    /// check hash -> (profile, artefact digest, check) for cross-process comparison
    pub artefacts: BTreeMap<String, (String, String, Value)>,
    pub truncated_by_deadline: bool,
    pub late_deaths: Vec<LateDeath>,
}

#[derive(Clone, Debug)]
pub struct LateDeath {
    pub profile: String,
    pub k: u64,
    pub started_at: u64,
    pub last_e: u64,
    pub sig: Option<String>,
}

/// Re-run a segment of one worker's life (`start..=until` of stride `k mod w`, plus one
/// settling run). Returns a description if the process dies, None if it completes.
#[allow(clippy::too_many_arguments)]
pub fn run_segment(bin: &Path, prop: &str, tier: Tier, seed: u64, k: u64, w: u64, start: u64, until: u64, hang_s: f64) -> Option<String> {
    let mut child = Command::new(bin)
        .arg("worker")
        .arg(prop)
        .arg(match tier {
            Tier::Quick => "quick",
            Tier::Thorough => "thorough",
        })
        .arg(seed.to_string())
        .arg(k.to_string())
        .arg(w.to_string())
        .arg(u64::MAX.to_string())
        .arg(start.to_string())
        .arg("1e9")
        .arg("--until")
        .arg(until.to_string())
        .stdin(Stdio::null())
        .stdout(Stdio::piped())
        .stderr(Stdio::null())
        .spawn()
        .ok()?;
    let out = child.stdout.take().unwrap();
    let (tx, rx) = channel();
    std::thread::spawn(move || {
        for l in BufReader::new(out).lines().map_while(Result::ok) {
            if tx.send(Some(l)).is_err() {
                return;
            }
        }
        let _ = tx.send(None);
    });
    let mut done = false;
    let mut sig = None;
    let mut last_b = None;
    let t0 = Instant::now();
    loop {
        match rx.recv_timeout(Duration::from_millis(200)) {
            Ok(Some(l)) => {
                if l == "D" {
                    done = true;
                } else if let Some(s) = l.strip_prefix("SIG ") {
                    sig = Some(s.to_string());
                } else if let Some(b) = l.strip_prefix("B ") {
                    last_b = Some(b.to_string());
                }
            }
            Ok(None) => break,
            Err(RecvTimeoutError::Timeout) => {
                let cpu = cpu_seconds(child.id()).unwrap_or(0.0);
                if rss_bytes(child.id()).map(|r| r > MEM_LIMIT).unwrap_or(false) {
                    // a runaway: counts as a death of the segment
                    let _ = child.kill();
                }
                if cpu > 7200.0 || t0.elapsed().as_secs_f64() > 4.0 * 3600.0 {
                    let _ = child.kill();
                    let _ = child.wait();
                    harness_error("replay of a worker-life segment did not end within its (very generous) time limit");
                }
            }
            Err(_) => break,
        }
    }
    let st = child.wait().ok();
    if done {
        None
    } else {
        Some(format!("signal line {:?}, last run begun {:?}, status {:?}", sig, last_b, st))
    }
}

/// CPU seconds (user + system) consumed so far by process `pid`, from /proc.
pub fn cpu_seconds(pid: u32) -> Option<f64> {
    let t = std::fs::read_to_string(format!("/proc/{}/stat", pid)).ok()?;
    // fields after the command name (which may contain spaces) start after the last ')'
    let rest = &t[t.rfind(')')? + 2..];
    let f: Vec<&str> = rest.split_whitespace().collect();
    let utime: f64 = f.get(11)?.parse().ok()?;
    let stime: f64 = f.get(12)?.parse().ok()?;
    let hz = unsafe { libc::sysconf(libc::_SC_CLK_TCK) } as f64;
    Some((utime + stime) / hz.max(1.0))
}

/// Resident set size of a process in bytes.
pub fn rss_bytes(pid: u32) -> Option<u64> {
    let t = std::fs::read_to_string(format!("/proc/{}/statm", pid)).ok()?;
    let pages: u64 = t.split_whitespace().nth(1)?.parse().ok()?;
    Some(pages * unsafe { libc::sysconf(libc::_SC_PAGESIZE) }.max(1) as u64)
}

/// A process of ours that holds this much memory is a runaway (the largest legitimate
/// footprint is two orders of magnitude smaller) and is treated like a hang: it is killed
/// before the machine's memory is gone, and the run it was in gets located and replayed.
pub const MEM_LIMIT: u64 = 6 << 30;

fn a_profile(a: &ParentArgs, idx: usize) -> String {
    a.bins[idx].0.clone()
}

/// Drive all workers to completion.
pub fn drive(a: &ParentArgs) -> RunSummary {
    let (tx, rx) = channel::<Msg>();
    let mut slots: Vec<WorkerSlot> = Vec::new();
    let mut hangs_killed = 0u32;
    let mut max_rss = 0u64;
    for (pi, (_, _, w)) in a.bins.iter().enumerate() {
        for k in 0..*w {
            let id = slots.len();
            let child = spawn_worker(a, pi, k, 0, &tx, id);
            slots.push(WorkerSlot { profile: pi, k, child, current: None, began: Instant::now(), began_cpu: 0.0, sig: None, done: false, killed_for_hang: false, restarts: 0, last_lines: Vec::new(), started_at: 0, last_e: None });
        }
    }
    let mut sum = RunSummary {
        runs: 0,
        checks: 0,
        execs: 0,
        ref_steps: 0,
        nontrivial: BTreeSet::new(),
        stats: BTreeMap::new(),
        samples: Vec::new(),
        found: Vec::new(),
        crashes: Vec::new(),
        digests: BTreeMap::new(),
        artefacts: BTreeMap::new(),
        truncated_by_deadline: false,
        late_deaths: Vec::new(),
    };
    let mut live = slots.len();
    while live > 0 {
        match rx.recv_timeout(Duration::from_millis(500)) {
            Ok(Msg::Line(id, l)) => {
                let s = &mut slots[id];
                s.last_lines.push(l.chars().take(120).collect());
                if s.last_lines.len() > 4 {
                    s.last_lines.remove(0);
                }
                if let Some(rest) = l.strip_prefix("B ") {
                    s.current = rest.trim().parse().ok();
                    s.began = Instant::now();
                    s.began_cpu = cpu_seconds(s.child.id()).unwrap_or(0.0);
                } else if let Some(rest) = l.strip_prefix("E ") {
                    let mut it = rest.splitn(2, ' ');
                    let i: u64 = it.next().and_then(|x| x.parse().ok()).unwrap_or(0);
                    let v: Value = it.next().and_then(|j| serde_json::from_str(j).ok()).unwrap_or(Value::Null);
                    s.current = None;
                    s.last_e = Some(i);
                    sum.runs += 1;
                    sum.checks += v.get("checks").and_then(|x| x.as_u64()).unwrap_or(0);
                    sum.execs += v.get("execs").and_then(|x| x.as_u64()).unwrap_or(0);
                    sum.ref_steps += v.get("ref_steps").and_then(|x| x.as_u64()).unwrap_or(0);
                    if let Some(arr) = v.get("nontrivial").and_then(|x| x.as_array()) {
                        for h in arr {
                            if let Some(h) = h.as_u64() {
                                sum.nontrivial.insert(h ^ fnv(a.bins[s.profile].0.as_bytes()));
                            }
                        }
                    }
                    if let Some(m) = v.get("stats").and_then(|x| x.as_object()) {
                        for (k, x) in m {
                            *sum.stats.entry(k.clone()).or_insert(0) += x.as_u64().unwrap_or(0);
                        }
                    }
                    if let Some(d) = v.get("digest").and_then(|x| x.as_str()) {
                        sum.digests.insert((a.bins[s.profile].0.clone(), i), d.to_string());
                    }
                    if let Some(arr) = v.get("artefacts").and_then(|x| x.as_array()) {
                        for art in arr {
                            let (h, d, ck) = (art[0].as_str().unwrap_or("").to_string(), art[1].as_str().unwrap_or("").to_string(), art[2].clone());
                            let profile = a_profile(a, s.profile);
                            match sum.artefacts.get(&h) {
                                None => {
                                    sum.artefacts.insert(h, (profile, d, ck));
                                }
                                Some((p0, d0, _)) => {
                                    *sum.stats.entry("artefacts_compared_across_processes".into()).or_insert(0) += 1;
                                    if *d0 != d {
                                        sum.found.push(Found {
                                            profile: profile.clone(),
                                            check: ck,
                                            class: "artefact-differs-across-processes".into(),
                                            at: 0,
                                            detail: format!("printed IR/bytecode digest {} in a {} process but {} in a {} process", d, profile, d0, p0),
                                            run_index: i,
                                        });
                                    }
                                }
                            }
                        }
                    }
                    if let Some(smp) = v.get("sample") {
                        if !smp.is_null() && sum.samples.len() < 6 {
                            sum.samples.push(smp.clone());
                        }
                    }
                    if let Some(vs) = v.get("violations").and_then(|x| x.as_array()) {
                        for x in vs {
                            sum.found.push(Found {
                                profile: a.bins[s.profile].0.clone(),
                                check: x.get("check").cloned().unwrap_or(Value::Null),
                                class: x.get("class").and_then(|c| c.as_str()).unwrap_or("?").to_string(),
                                at: x.get("at").and_then(|c| c.as_u64()).unwrap_or(0),
                                detail: x.get("detail").and_then(|c| c.as_str()).unwrap_or("").to_string(),
                                run_index: i,
                            });
                        }
                    }
                } else if let Some(rest) = l.strip_prefix("SIG ") {
                    s.sig = Some(rest.to_string());
                } else if l == "D" {
                    s.done = true;
                } else if l.starts_with("T ") {
                    sum.truncated_by_deadline = true;
                }
            }
            Ok(Msg::Eof(id)) => {
                let (profile, k, done, cur, sig, hang, restarts) = {
                    let s = &mut slots[id];
                    let _ = s.child.wait();
                    (s.profile, s.k, s.done, s.current, s.sig.take(), s.killed_for_hang, s.restarts)
                };
                if done {
                    live -= 1;
                } else if let Some(i) = cur {
                    sum.crashes.push((a.bins[profile].0.clone(), i, sig, hang, k, slots[id].started_at));
                    if restarts > 12 {
                        eprintln!("worker {} restarted too often; giving up on its stride", id);
                        live -= 1;
                    } else {
                        let child = spawn_worker(a, profile, k, i + 1, &tx, id);
                        let s = &mut slots[id];
                        s.child = child;
                        s.started_at = i + 1;
                        s.last_e = None;
                        s.current = None;
                        s.began = Instant::now();
                        s.began_cpu = 0.0;
                        s.killed_for_hang = false;
                        s.restarts += 1;
                    }
                } else if let Some(last) = slots[id].last_e {
                    // Died between two runs: the damage was done earlier (e.g. machine code that
                    // wrote outside its stack frame). Remember the segment of this worker's life
                    // and carry on after it; triage replays the segment.
                    sum.late_deaths.push(LateDeath { profile: a.bins[profile].0.clone(), k, started_at: slots[id].started_at, last_e: last, sig: sig.clone() });
                    if restarts > 12 {
                        live -= 1;
                    } else {
                        let w = a.bins[profile].2;
                        let child = spawn_worker(a, profile, k, last + w, &tx, id);
                        let s = &mut slots[id];
                        s.child = child;
                        s.started_at = last + w;
                        s.last_e = None;
                        s.current = None;
                        s.began = Instant::now();
                        s.began_cpu = 0.0;
                        s.killed_for_hang = false;
                        s.restarts += 1;
                    }
                } else {
                    let st = slots[id].child.try_wait();
                    harness_error(&format!("worker {} (profile {}) died before its first run; status {:?}; last lines {:?}", id, a.bins[profile].0, st, slots[id].last_lines));
                }
            }
            Err(RecvTimeoutError::Timeout) => {}
            Err(RecvTimeoutError::Disconnected) => break,
        }
        // hang control (wall clock is a backstop only)
        // A run counts as hung when it has *burnt* hang_s seconds of CPU (load-independent),
        // or, as a last resort, after 15x that in wall-clock time (blocked forever).
        for s in slots.iter_mut() {
            if !s.done && s.current.is_some() && !s.killed_for_hang {
                let cpu = cpu_seconds(s.child.id()).map(|c| c - s.began_cpu).unwrap_or(0.0);
                // once a few runs have been killed at the full limit, the verdict of this batch no
                // longer depends on later ones (only the first are triaged): do not spend a minute
                // of CPU on each of hundreds of hanging runs of a broken tree
                let limit = if hangs_killed >= 4 { a.hang_s / 6.0 } else { a.hang_s };
                let rss = rss_bytes(s.child.id()).unwrap_or(0);
                max_rss = max_rss.max(rss);
                if cpu > limit || s.began.elapsed().as_secs_f64() > limit * 15.0 || rss > MEM_LIMIT {
                    s.killed_for_hang = true;
                    hangs_killed += 1;
                    let _ = s.child.kill();
                }
            }
        }
    }
    sum.stats.insert("max_worker_rss_mb".into(), max_rss >> 20);
    sum
}

/// Replay every committed regression case of this property (cases that once failed on
/// this code base and were fixed). Returns violations and the number replayed.
pub fn replay_regressions(a: &ParentArgs) -> (Vec<Found>, u64) {
    let dir = a.verif_dir.join("regress").join(&a.prop);
    let mut found = Vec::new();
    let mut n = 0;
    let mut files: Vec<_> = match std::fs::read_dir(&dir) {
        Ok(d) => d.filter_map(|e| e.ok()).map(|e| e.path()).filter(|p| p.extension().map(|x| x == "json").unwrap_or(false)).collect(),
        Err(_) => return (found, 0),
    };
    files.sort();
    let mut judges: BTreeMap<String, Judge> = BTreeMap::new();
    for f in files {
        let v: Value = match std::fs::read_to_string(&f).ok().and_then(|t| serde_json::from_str(&t).ok()) {
            Some(v) => v,
            None => harness_error(&format!("unreadable regression file {:?}", f)),
        };
        let mut check = v.get("check").cloned().unwrap_or(Value::Null);
        // a regression case stored under another property's name is judged as this property
        if let Some(o) = check.as_object_mut() {
            o.insert("property".into(), json!(a.prop));
        }
        let profiles: Vec<String> = a.bins.iter().map(|b| b.0.clone()).collect();
        for profile in profiles {
            let bin = a.bins.iter().find(|b| b.0 == profile).unwrap().1.clone();
            let j = judges.entry(profile.clone()).or_insert_with(|| Judge::new(&bin, a.hang_s));
            let (class, at, detail) = j.eval(&check);
            n += 1;
            if class.starts_with("harness-") {
                harness_error(&format!("regression file {:?}: {}", f, class));
            }
            if class != "ok" {
                found.push(Found { profile, check: check.clone(), class, at, detail: format!("regression case {:?}: {}", f.file_name().unwrap_or_default(), detail), run_index: u64::MAX });
            }
        }
    }
    (found, n)
}

/// Re-run one run index in trace mode to learn which check the process died in.
pub fn locate_crash(a: &ParentArgs, profile: &str, i: u64) -> Option<(Value, Option<String>, bool)> {
    let (_, bin, _) = a.bins.iter().find(|b| b.0 == profile)?;
    let mut child = Command::new(bin)
        .arg("worker")
        .arg(&a.prop)
        .arg(match a.tier {
            Tier::Quick => "quick",
            Tier::Thorough => "thorough",
        })
        .arg(a.seed.to_string())
        .arg("0")
        .arg("1")
        .arg(a.count.to_string())
        .arg("0")
        .arg("1e9")
        .arg("--only")
        .arg(i.to_string())
        .arg("--trace")
        .stdin(Stdio::null())
        .stdout(Stdio::piped())
        .stderr(Stdio::null())
        .spawn()
        .ok()?;
    let out = child.stdout.take().unwrap();
    let (tx, rx) = channel();
    std::thread::spawn(move || {
        for l in BufReader::new(out).lines().map_while(Result::ok) {
            if tx.send(Some(l)).is_err() {
                return;
            }
        }
        let _ = tx.send(None);
    });
    let mut last: Option<Value> = None;
    let mut sig = None;
    let mut finished = false;
    let mut hang = false;
    let mut last_activity = Instant::now();
    let mut cpu_at_activity = 0.0f64;
    loop {
        match rx.recv_timeout(Duration::from_millis(200)) {
            Ok(Some(l)) => {
                last_activity = Instant::now();
                cpu_at_activity = cpu_seconds(child.id()).unwrap_or(0.0);
                if let Some(j) = l.strip_prefix("C ") {
                    last = serde_json::from_str(j).ok();
                } else if let Some(s) = l.strip_prefix("SIG ") {
                    sig = Some(s.to_string());
                } else if l == "D" {
                    finished = true;
                }
            }
            Ok(None) => break,
            Err(RecvTimeoutError::Timeout) => {
                let cpu = cpu_seconds(child.id()).unwrap_or(0.0);
                let runaway = rss_bytes(child.id()).map(|r| r > MEM_LIMIT).unwrap_or(false);
                if cpu - cpu_at_activity > a.hang_s * 3.0 || last_activity.elapsed().as_secs_f64() > a.hang_s * 45.0 || runaway {
                    hang = true;
                    let _ = child.kill();
                }
            }
            Err(_) => break,
        }
    }
    let _ = child.wait();
    if finished {
        return None;
    }
    last.map(|c| (c, sig, hang))
}

pub fn minimise(judge: &mut Judge, start: &AnyCheck, class: &str, max_evals: u64) -> (AnyCheck, u64) {
    let mut cur = start.clone();
    let begin = judge.evals;
    let t0 = Instant::now();
    let spent = |j: &Judge| j.evals - begin >= max_evals || t0.elapsed().as_secs_f64() > 120.0;
    for _round in 0..4 {
        let size_at_round_start = cur.size();
        // 1. delta debugging on the primary sequence (program text / operation list)
        let mut chunk = (cur.primary_len() / 2).max(1);
        loop {
            let mut i = 0;
            while i < cur.primary_len() {
                if spent(judge) {
                    return (cur, judge.evals - begin);
                }
                match cur.remove_primary(i, chunk) {
                    Some(cand) => {
                        let (c, _, _) = judge.eval(&cand.to_json());
                        if c == class {
                            cur = cand;
                        } else {
                            i += chunk;
                        }
                    }
                    None => i += chunk,
                }
            }
            if chunk == 1 {
                break;
            }
            chunk /= 2;
        }
        // 2. everything else, first improvement wins, until a fixpoint
        loop {
            let mut progress = false;
            let size = cur.size();
            for cand in cur.shrink_candidates() {
                if spent(judge) {
                    return (cur, judge.evals - begin);
                }
                if cand.size() >= size {
                    continue;
                }
                let (c, _, _) = judge.eval(&cand.to_json());
                if c == class {
                    cur = cand;
                    progress = true;
                    break;
                }
            }
            if !progress {
                break;
            }
        }
        if cur.size() >= size_at_round_start {
            break;
        }
    }
    (cur, judge.evals - begin)
}

/// Known findings: committed, read-only at run time.
pub struct Known {
    pub findings: Vec<Value>,
}

impl Known {
    pub fn load(verif: &Path) -> Known {
        let mut findings = Vec::new();
        if let Ok(t) = std::fs::read_to_string(verif.join("known-findings.txt")) {
            for l in t.lines() {
                // finding: property=<id> {json}
                if let Some(rest) = l.strip_prefix("finding: property=") {
                    let mut it = rest.splitn(2, ' ');
                    let prop = it.next().unwrap_or("").to_string();
                    if let Some(mut v) = it.next().and_then(|j| serde_json::from_str::<Value>(j).ok()) {
                        if let Some(o) = v.as_object_mut() {
                            o.insert("property".into(), json!(prop));
                        }
                        findings.push(v);
                    }
                }
            }
        }
        Known { findings }
    }

    /// A failing (minimised) check matches a finding iff every matcher key of the
    /// finding is satisfied. Matchers: property, backend, class, fault, program, check_kind.
    pub fn matches(&self, prop: &str, check: &Value, class: &str) -> Option<&Value> {
        let case = check.get("case");
        let get = |k: &str| case.and_then(|c| c.get(k));
        for f in &self.findings {
            let m = match f.get("match") {
                Some(m) => m,
                None => continue,
            };
            if f.get("property").and_then(|x| x.as_str()) != Some(prop) {
                continue;
            }
            let mut ok = true;
            if let Some(b) = m.get("backend").and_then(|x| x.as_str()) {
                ok &= get("backend").and_then(|x| x.as_str()) == Some(b);
            }
            if let Some(c) = m.get("class").and_then(|x| x.as_str()) {
                ok &= class == c;
            }
            if let Some(k) = m.get("check_kind").and_then(|x| x.as_str()) {
                ok &= check.get("kind").and_then(|x| x.as_str()) == Some(k);
            }
            if let Some(fk) = m.get("fault").and_then(|x| x.as_array()) {
                let have = get("fault").and_then(|x| x.get("kind")).and_then(|x| x.as_str()).unwrap_or("");
                ok &= fk.iter().any(|x| x.as_str() == Some(have));
            }
            if let Some(p) = m.get("program").and_then(|x| x.as_str()) {
                ok &= get("program").and_then(|x| x.as_str()) == Some(p);
            }
            if ok {
                return Some(f);
            }
        }
        None
    }
}

pub struct Report {
    pub violations: u64,
    pub known: u64,
    pub lines: Vec<String>,
}

/// Turn raw findings and crashes into minimised replay files and output lines.
pub fn triage(a: &ParentArgs, sum: &mut RunSummary) -> Report {
    let known = Known::load(&a.verif_dir);
    let mut rep = Report { violations: 0, known: 0, lines: Vec::new() };
    // crashes and hangs first: find the check each died in
    let crashes = std::mem::take(&mut sum.crashes);
    let mut seen_crash = 0;
    let mut seen_hang = 0u32;
    for (profile, i, sig, hang, k, started_at) in crashes {
        seen_crash += 1;
        seen_hang += hang as u32;
        // (locating a hang costs up to three times the hang limit in CPU time)
        if seen_crash > 8 || (hang && seen_hang > 2) {
            *sum.stats.entry("crashes_not_triaged".into()).or_insert(0) += 1;
            continue;
        }
        match locate_crash(a, &profile, i) {
            Some((check, sig2, hang2)) => {
                let class = if hang || hang2 { "hang".to_string() } else { crash_class(sig2.as_deref().or(sig.as_deref()), None) };
                sum.found.push(Found { profile, check, class, at: 0, detail: format!("process died in run {} (signal line: {:?})", i, sig), run_index: i });
            }
            None if hang => {
                // Killed for burning a lot of CPU, but it does complete when given the time:
                // slow, not hung. No verdict (running time is not a property result here).
                *sum.stats.entry("slow_runs_killed_but_complete_when_rerun".into()).or_insert(0) += 1;
            }
            None => {
                // The run completes on its own: the damage was done by an earlier run of the same
                // worker (e.g. machine code writing outside its frame). Replay the worker's life.
                sum.late_deaths.push(LateDeath { profile, k, started_at, last_e: i, sig });
            }
        }
    }
    // deaths between runs: find the shortest tail of the worker's life that still dies
    let late = std::mem::take(&mut sum.late_deaths);
    for (n, d) in late.iter().enumerate() {
        if n >= 2 {
            *sum.stats.entry("late_deaths_not_triaged".into()).or_insert(0) += 1;
            continue;
        }
        let (bin, w) = match a.bins.iter().find(|b| b.0 == d.profile) {
            Some(b) => (b.1.clone(), b.2),
            None => continue,
        };
        let mut found: Option<(u64, String)> = None;
        let mut span = 1u64;
        loop {
            let start = d.last_e.saturating_sub((span - 1) * w).max(d.started_at);
            if let Some(how) = run_segment(&bin, &a.prop, a.tier, a.seed, d.k, w, start, d.last_e, a.hang_s) {
                found = Some((start, how));
                break;
            }
            if start == d.started_at {
                break;
            }
            span *= 2;
        }
        match found {
            Some((start, how)) => {
                let replay_dir = a.verif_dir.join("replays").join(&a.prop);
                let _ = std::fs::create_dir_all(&replay_dir);
                let body = json!({
                    "property": a.prop,
                    "profile": d.profile,
                    "class": "crash-outside-run",
                    "detail": format!("a worker process died between two runs ({}); the damage was done in one of the runs of this segment", how),
                    "worker_segment": {"seed": a.seed, "tier": match a.tier { Tier::Quick => "quick", Tier::Thorough => "thorough" }, "k": d.k, "w": w, "start": start, "until": d.last_e},
                    "original_signal": d.sig,
                });
                let name = format!("{:016x}.json", fnv(body.to_string().as_bytes()));
                let path = replay_dir.join(name);
                if std::fs::write(&path, serde_json::to_string_pretty(&body).unwrap()).is_err() {
                    harness_error("cannot write replay file");
                }
                if known.matches(&a.prop, &Value::Null, "crash-outside-run").is_some() {
                    rep.known += 1;
                    rep.lines.push(format!("KNOWN-FINDING: property={} process death between runs [replay={}]", a.prop, path.display()));
                } else {
                    rep.violations += 1;
                    rep.lines.push(format!("VIOLATION property={} replay={}", a.prop, path.display()));
                    rep.lines.push(format!("  class=crash-outside-run profile={} runs {}..={} of stride {} mod {} :: {}", d.profile, start, d.last_e, d.k, w, how));
                }
            }
            None => {
                // The worker's own fatal-signal handler reported a crash (so it was not killed from
                // outside), yet neither the run nor the worker's whole life dies again in a fresh
                // process. Wild machine code (a jump into the middle of an instruction, a store
                // through a stale register) can depend on bits no replay controls. The crash was
                // observed once and is reported as such; anything else is a harness error.
                let name = d.sig.as_deref().and_then(|s| s.split_whitespace().next()).unwrap_or("").to_string();
                if !["SEGV", "BUS", "ILL", "FPE"].contains(&name.as_str()) {
                    harness_error(&format!(
                        "a worker (profile {}, stride {} mod {}) died after run {} (signal line {:?}) but its whole life {}..={} completes when replayed: not deterministic",
                        d.profile, d.k, w, d.last_e, d.sig, d.started_at, d.last_e
                    ));
                }
                // Two more replays of the whole life. A crash that never comes back is not counted:
                // one unexplained SIGSEGV (address 0) of a C06 worker was seen on the unchanged tree
                // in some hundred batches, under heavy machine load, and could not be made to recur
                // in ten repetitions of the batch, under 33 stack offsets or in any replay. A check
                // that fails one batch in a hundred on a good tree would be a false-alarm generator.
                let mut recurred = false;
                for _ in 0..2 {
                    if run_segment(&bin, &a.prop, a.tier, a.seed, d.k, w, d.started_at, d.last_e, a.hang_s).is_some() {
                        recurred = true;
                        break;
                    }
                }
                if !recurred {
                    *sum.stats.entry("worker_deaths_seen_once_never_reproduced".into()).or_insert(0) += 1;
                    rep.lines.push(format!(
                        "NOTE property={} a worker (profile {}, stride {} mod {}) died once by {:?} in or after run {}; the run alone and three replays of its whole life complete: not counted",
                        a.prop, d.profile, d.k, w, d.sig, d.last_e
                    ));
                    continue;
                }
                let replay_dir = a.verif_dir.join("replays").join(&a.prop);
                let _ = std::fs::create_dir_all(&replay_dir);
                let class = format!("{}-flaky", crash_class(d.sig.as_deref(), None));
                let body = json!({
                    "property": a.prop,
                    "profile": d.profile,
                    "class": class,
                    "detail": format!("a worker process died by a fatal signal ({:?}) in or right after run {}; replaying that run alone completes, replaying the worker's whole life {}..={} in fresh processes dies only sometimes, so the replay below may have to be repeated", d.sig, d.last_e, d.started_at, d.last_e),
                    "worker_segment": {"seed": a.seed, "tier": match a.tier { Tier::Quick => "quick", Tier::Thorough => "thorough" }, "k": d.k, "w": w, "start": d.started_at, "until": d.last_e},
                    "original_signal": d.sig,
                    "reproduces": false,
                });
                let fname = format!("{:016x}.json", fnv(body.to_string().as_bytes()));
                let path = replay_dir.join(fname);
                if std::fs::write(&path, serde_json::to_string_pretty(&body).unwrap()).is_err() {
                    harness_error("cannot write replay file");
                }
                rep.violations += 1;
                rep.lines.push(format!("VIOLATION property={} replay={}", a.prop, path.display()));
                rep.lines.push(format!("  class={} profile={} runs {}..={} of stride {} mod {} :: dies in some replays of the worker's life only (signal line {:?})", class, d.profile, d.started_at, d.last_e, d.k, w, d.sig));
            }
        }
    }
    // group by (profile, signature, class); minimise the first of each group
    let mut groups: BTreeMap<(String, String, String), Vec<Found>> = BTreeMap::new();
    for f in sum.found.drain(..) {
        let sig = AnyCheck::from_json(&f.check).map(|c| c.signature()).unwrap_or_default();
        groups.entry((f.profile.clone(), sig, f.class.clone())).or_default().push(f);
    }
    let replay_dir = a.verif_dir.join("replays").join(&a.prop);
    let mut minimised = 0;
    let mut hang_groups = 0;
    for ((profile, sig, class), fs) in groups {
        if class == "hang" {
            // every evaluation of a hanging case costs the full hang limit
            hang_groups += 1;
            if hang_groups > 2 {
                *sum.stats.entry("hang_groups_not_reported".into()).or_insert(0) += 1;
                continue;
            }
        }
        // start from the smallest failing instance of the group
        let first = fs
            .iter()
            .min_by_key(|f| AnyCheck::from_json(&f.check).map(|c| c.size()).unwrap_or(usize::MAX))
            .unwrap();
        let bin = match a.bins.iter().find(|b| b.0 == profile) {
            Some(b) => b.1.clone(),
            None => continue,
        };
        let mut judge = Judge::new(&bin, a.hang_s);
        let start = match AnyCheck::from_json(&first.check) {
            Some(c) => c,
            None => harness_error("worker reported a check that cannot be decoded"),
        };
        // the violation must reproduce in a fresh process before anything is believed
        let (c0, at0, d0) = judge.eval(&start.to_json());
        // A process death can look different from inside a fresh process (a run that was killed
        // from outside while it burnt memory hangs there, say). The fresh verdict is the one a
        // replay will show, so it is the one reported; "passes in a fresh process" stays an error.
        let class = if c0 != class && c0 != "ok" && !c0.starts_with("harness-") && class.starts_with("crash-") { c0.clone() } else { class };
        if c0 != class {
            harness_error(&format!(
                "violation does not reproduce in a fresh process: property {} class {} (fresh process says {}) check {}",
                a.prop, class, c0, first.check
            ));
        }
        // while shrinking, a candidate that needs more than a few seconds counts as a hang
        // (expected time per evaluation is milliseconds); the final verdict below uses the full timeout
        judge.timeout = Duration::from_secs_f64(if class == "hang" { 3.0 } else { a.hang_s.min(8.0) });
        let (min, evals) = if minimised < 6 { minimise(&mut judge, &start, &class, if class == "hang" { 60 } else { 6000 }) } else { (start.clone(), 0) };
        judge.timeout = Duration::from_secs_f64(a.hang_s);
        minimised += 1;
        let (cm, atm, dm) = judge.eval(&min.to_json());
        let (final_check, at, detail) = if cm == class { (min, atm, dm) } else { (start, at0, d0) };
        let fj = final_check.to_json();
        let known_hit = known.matches(&a.prop, &fj, &class).cloned();
        let body = json!({
            "property": a.prop,
            "profile": profile,
            "class": class,
            "at": at,
            "detail": detail,
            "check": fj,
            "signature": sig,
            "occurrences_in_this_batch": fs.len(),
            "found_in_run_index": first.run_index,
            "verif_seed": a.seed,
            "minimisation_evaluations": evals,
            "original_check": first.check,
        });
        let text = serde_json::to_string_pretty(&body).unwrap();
        let name = format!("{:016x}.json", fnv(fj.to_string().as_bytes()) ^ fnv(class.as_bytes()));
        let _ = std::fs::create_dir_all(&replay_dir);
        let path = replay_dir.join(name);
        if std::fs::write(&path, text).is_err() {
            harness_error("cannot write replay file");
        }
        if let Some(k) = known_hit {
            rep.known += 1;
            rep.lines.push(format!(
                "KNOWN-FINDING: property={} {} [{} x{} profile={} replay={}]",
                a.prop,
                k.get("what").and_then(|x| x.as_str()).unwrap_or(""),
                class,
                fs.len(),
                profile,
                path.display()
            ));
        } else {
            rep.violations += 1;
            rep.lines.push(format!("VIOLATION property={} replay={}", a.prop, path.display()));
            rep.lines.push(format!("  class={} profile={} signature={} occurrences={} :: {}", class, profile, sig, fs.len(), detail));
        }
    }
    rep
}

pub fn write_evidence(a: &ParentArgs, sum: &RunSummary, rep: &Report, wall_s: f64, aslr_off: bool) {
    let fired: BTreeMap<&String, &u64> = sum.stats.iter().filter(|(k, _)| k.starts_with("fired_") || k.starts_with("fault_")).collect();
    let mut assumptions = vec![
        "reference model R0/R1 (/verif/sim/engine/src/refmodel.rs) is canonical Brainfuck as the property states it; R1's single acceleration rule is cross-checked against R0 in `sim selftest`".to_string(),
        "a reference run that hits its step cap is 'unknown': only non-contradiction of the two histories is asserted for it".to_string(),
        "sampling, not enumeration: a clean batch is evidence, not proof".to_string(),
        "the LLVM backend cannot be built in this sandbox and is not exercised".to_string(),
    ];
    assumptions.extend(a.extra_assumptions.iter().cloned());
    if !aslr_off {
        assumptions.push("address-space randomisation could not be switched off for workers; no verdict depends on an address".to_string());
    }
    let ev = json!({
        "property_id": a.prop,
        "tier": match a.tier { Tier::Quick => "quick", Tier::Thorough => "thorough" },
        "seed": a.seed,
        "level": a.level,
        "coverage": {
            "evaluations": sum.execs.max(sum.checks),
            "distinct_nontrivial": sum.nontrivial.len(),
            "rule": a.rule,
            "samples": sum.samples,
            "simulated_runs": sum.runs,
            "checks": sum.checks,
            "executions_of_real_code": sum.execs,
            "runs_per_hour": if wall_s > 0.0 { (sum.runs as f64 / wall_s * 3600.0) as u64 } else { 0 },
            "simulated_time": {"reference_steps": sum.ref_steps, "unit": "canonical Brainfuck steps executed by the reference model"},
            "fault_kinds_fired": fired,
            "reach": sum.stats,
            "notes": rep.lines.iter().filter(|l| l.starts_with("NOTE")).collect::<Vec<_>>(),
            "profiles": a.bins.iter().map(|b| json!({"profile": b.0, "workers": b.2})).collect::<Vec<_>>(),
            "real_vs_stub": a.stubs,
            "stopped_early_by_wall_clock_cap": sum.truncated_by_deadline,
            "known_findings_seen": rep.known,
            "exhaustive": false,
        },
        "assumptions": assumptions,
        "wall_s": wall_s,
        "violations": rep.violations,
    });
    let dir = a.verif_dir.join("evidence");
    let _ = std::fs::create_dir_all(&dir);
    let path = dir.join(format!("{}.json", a.prop));
    if std::fs::write(&path, serde_json::to_string_pretty(&ev).unwrap()).is_err() {
        harness_error("cannot write evidence file");
    }
}
