//! A *case* is one fully determined execution: program text, configuration and every
//! environment decision. It is what replay files contain; it does not depend on the
//! generators.

use serde_json::{json, Value};

use crate::peer::{Fault, Peer};

#[derive(Clone, Copy, Debug, PartialEq, Eq, PartialOrd, Ord, Hash)]
pub enum Backend {
    Inplace,
    IrInt,
    BcInt,
    BaseJit,
}

impl Backend {
    pub const ALL: [Backend; 4] = [Backend::Inplace, Backend::IrInt, Backend::BcInt, Backend::BaseJit];

    pub fn name(&self) -> &'static str {
        match self {
            Backend::Inplace => "inplace",
            Backend::IrInt => "irint",
            Backend::BcInt => "bcint",
            Backend::BaseJit => "basejit",
        }
    }

    pub fn from_name(s: &str) -> Option<Backend> {
        Backend::ALL.iter().copied().find(|b| b.name() == s)
    }

    pub fn optimizing(&self) -> bool {
        !matches!(self, Backend::Inplace)
    }
}

#[derive(Clone, Copy, Debug, PartialEq, Eq)]
pub enum Mode {
    Execute,
    Limited(u64),
    /// `execute_unsafe` on a context pre-grown with `pregrow`
    Unsafe,
}

/// Decisions of the simulated allocator (E4, E5).
#[derive(Clone, Copy, Debug, PartialEq, Eq)]
pub struct AllocPlan {
    /// serve in-zone requests from the guard arena
    pub guard: bool,
    /// seed for left/right placement coins
    pub seed: u64,
    /// hand the same address back to the next same-size request after a free
    pub reuse: bool,
    /// the k-th in-zone request (1-based) returns null
    pub fail_at: Option<u64>,
}

impl AllocPlan {
    pub const OFF: AllocPlan = AllocPlan { guard: false, seed: 0, reuse: false, fail_at: None };
}

#[derive(Clone, Debug, PartialEq)]
pub struct Case {
    pub program: String,
    pub width: u32,
    pub backend: Backend,
    pub level: u32,
    pub mode: Mode,
    pub peer: Peer,
    pub fault: Fault,
    /// `make_accessible(-a, b)` before execution
    pub pregrow: Option<(i64, i64)>,
    /// `memory.mov(d)` after the pre-growth: the program starts this far from the tape
    pub far_move: Option<i64>,
    pub junk: u64,
    pub alloc: AllocPlan,
    pub hash_seed: u64,
    /// cap on logged events
    pub max_events: usize,
}

impl Case {
    pub fn to_json(&self) -> Value {
        json!({
            "program": self.program,
            "width": self.width,
            "backend": self.backend.name(),
            "level": self.level,
            "mode": match self.mode {
                Mode::Execute => json!("execute"),
                Mode::Limited(b) => json!({"limited": b}),
                Mode::Unsafe => json!("unsafe"),
            },
            "peer": self.peer.to_json(),
            "fault": self.fault.to_json(),
            "pregrow": match self.pregrow { Some((a, b)) => json!([a, b]), None => Value::Null },
            "far_move": self.far_move,
            "junk": self.junk,
            "alloc": {"guard": self.alloc.guard, "seed": self.alloc.seed, "reuse": self.alloc.reuse,
                      "fail_at": self.alloc.fail_at},
            "hash_seed": self.hash_seed,
            "max_events": self.max_events,
        })
    }

    pub fn from_json(v: &Value) -> Option<Case> {
        let mode = match v.get("mode")? {
            Value::String(s) if s == "execute" => Mode::Execute,
            Value::String(s) if s == "unsafe" => Mode::Unsafe,
            Value::Object(o) => Mode::Limited(o.get("limited")?.as_u64()?),
            _ => return None,
        };
        let a = v.get("alloc")?;
        Some(Case {
            program: v.get("program")?.as_str()?.to_string(),
            width: v.get("width")?.as_u64()? as u32,
            backend: Backend::from_name(v.get("backend")?.as_str()?)?,
            level: v.get("level")?.as_u64()? as u32,
            mode,
            peer: Peer::from_json(v.get("peer")?)?,
            fault: Fault::from_json(v.get("fault")?)?,
            pregrow: match v.get("pregrow") {
                Some(Value::Array(x)) if x.len() == 2 => Some((x[0].as_i64()?, x[1].as_i64()?)),
                _ => None,
            },
            far_move: v.get("far_move").and_then(|x| x.as_i64()),
            junk: v.get("junk").and_then(|x| x.as_u64()).unwrap_or(0),
            alloc: AllocPlan {
                guard: a.get("guard")?.as_bool()?,
                seed: a.get("seed").and_then(|x| x.as_u64()).unwrap_or(0),
                reuse: a.get("reuse").and_then(|x| x.as_bool()).unwrap_or(false),
                fail_at: a.get("fail_at").and_then(|x| x.as_u64()),
            },
            hash_seed: v.get("hash_seed").and_then(|x| x.as_u64()).unwrap_or(0),
            max_events: v.get("max_events").and_then(|x| x.as_u64()).unwrap_or(1 << 16) as usize,
        })
    }

    pub fn cfg_label(&self) -> String {
        let m = match self.mode {
            Mode::Execute => "exec".to_string(),
            Mode::Limited(b) => format!("lim{}", b),
            Mode::Unsafe => "unsafe".to_string(),
        };
        format!("{}/O{}/i{}/{}", self.backend.name(), self.level, self.width, m)
    }
}
