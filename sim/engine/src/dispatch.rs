//! One type for every kind of replayable check, so that the worker protocol, the
//! minimiser and replay files do not care which property they serve.

use serde_json::Value;

use crate::check::{self, Check, Verdict};
use crate::props::{self, GenEnv};
use crate::rng::Rng;

#[derive(Clone, Debug, PartialEq)]
pub enum AnyCheck {
    Prog(Check),
    Tape(crate::tape::TapeCheck),
    Svec(crate::svec::SvecCheck),
    Cli(crate::cli::CliCheck),
    Compile(crate::compile::CompileCheck),
    Bytecode(crate::bcheck::BcCheck),
}

pub struct Checks {
    pub items: Vec<AnyCheck>,
    pub family: String,
}

impl AnyCheck {
    pub fn to_json(&self) -> Value {
        match self {
            AnyCheck::Prog(c) => c.to_json(),
            AnyCheck::Tape(c) => c.to_json(),
            AnyCheck::Svec(c) => c.to_json(),
            AnyCheck::Cli(c) => c.to_json(),
            AnyCheck::Compile(c) => c.to_json(),
            AnyCheck::Bytecode(c) => c.to_json(),
        }
    }

    pub fn from_json(v: &Value) -> Option<AnyCheck> {
        let kind = v.get("kind")?.as_str()?;
        match kind {
            _ if check::Kind::from_name(kind).is_some() => Check::from_json(v).map(AnyCheck::Prog),
            "tape" => crate::tape::TapeCheck::from_json(v).map(AnyCheck::Tape),
            "svec" => crate::svec::SvecCheck::from_json(v).map(AnyCheck::Svec),
            "cli" => crate::cli::CliCheck::from_json(v).map(AnyCheck::Cli),
            "compile" => crate::compile::CompileCheck::from_json(v).map(AnyCheck::Compile),
            "bytecode" => crate::bcheck::BcCheck::from_json(v).map(AnyCheck::Bytecode),
            _ => None,
        }
    }

    pub fn prop(&self) -> &str {
        match self {
            AnyCheck::Prog(c) => &c.prop,
            AnyCheck::Tape(c) => &c.prop,
            AnyCheck::Svec(c) => &c.prop,
            AnyCheck::Cli(c) => &c.prop,
            AnyCheck::Compile(c) => &c.prop,
            AnyCheck::Bytecode(c) => &c.prop,
        }
    }

    /// The same check restricted to what can run without the guard zone and without
    /// machine code (None if nothing is left).
    pub fn for_inproc(&self) -> Option<AnyCheck> {
        match self {
            AnyCheck::Prog(c) => {
                if c.case.backend == crate::case::Backend::BaseJit || c.kind == check::Kind::AllocFail {
                    return None;
                }
                if c.case.program.len() > 160 {
                    // compiling under an interpreter is slow: small programs only
                    return None;
                }
                let mut n = c.clone();
                n.case.alloc = crate::case::AllocPlan::OFF;
                // keep interpreted runs short
                n.ref_steps = n.ref_steps.min(600);
                n.exec_cap = n.exec_cap.min(600);
                if let Some((a, b)) = n.case.pregrow {
                    n.case.pregrow = Some((a.min(300), b.min(300)));
                }
                Some(AnyCheck::Prog(n))
            }
            AnyCheck::Tape(c) => {
                let mut n = c.clone();
                n.alloc = crate::case::AllocPlan::OFF;
                // keep allocations small under the interpreter
                for o in n.ops.iter_mut() {
                    use crate::tape::Op;
                    // (far excursions stay as they are: nothing is allocated out there)
                    let clamp = |x: i64| if x.unsigned_abs() > 16_000_000 { x } else { x.clamp(-3000, 3000) };
                    *o = match *o {
                        Op::Mov(x) => Op::Mov(clamp(x)),
                        Op::Read(x) => Op::Read(clamp(x)),
                        Op::Write(x, v) => Op::Write(clamp(x), v),
                        Op::Access(a, b) => Op::Access(clamp(a), clamp(b)),
                        Op::Check(x) => Op::Check(clamp(x)),
                        Op::PtrRel(x) => Op::PtrRel(clamp(x)),
                        Op::CheckPtr(x) => Op::CheckPtr(clamp(x)),
                        Op::Impossible(x, w) => Op::Impossible(x, w),
                    };
                }
                Some(AnyCheck::Tape(n))
            }
            AnyCheck::Svec(_) => Some(self.clone()),
            _ => None,
        }
    }

    /// Short signature used to group violations of the same kind.
    pub fn signature(&self) -> String {
        match self {
            AnyCheck::Prog(c) => format!("{}/{}", c.kind.name(), c.case.backend.name()),
            AnyCheck::Tape(c) => format!("tape/i{}", c.width),
            AnyCheck::Svec(c) => format!("svec/N{}/{}", c.n, if c.zst { "zst" } else if c.tracked { "tracked" } else { "u32" }),
            AnyCheck::Cli(_) => "cli".to_string(),
            AnyCheck::Compile(c) => format!("compile/i{}/O{}", c.width, c.level.min(4)),
            AnyCheck::Bytecode(c) => format!("bytecode/regs{}", c.regs),
        }
    }

    /// Candidates that are "smaller" than self, most aggressive first.
    pub fn shrink_candidates(&self) -> Vec<AnyCheck> {
        match self {
            AnyCheck::Prog(c) => crate::minimize::shrink_prog(c).into_iter().map(AnyCheck::Prog).collect(),
            AnyCheck::Tape(c) => c.shrink_candidates().into_iter().map(AnyCheck::Tape).collect(),
            AnyCheck::Svec(c) => c.shrink_candidates().into_iter().map(AnyCheck::Svec).collect(),
            AnyCheck::Cli(c) => c.shrink_candidates().into_iter().map(AnyCheck::Cli).collect(),
            AnyCheck::Compile(c) => c.shrink_candidates().into_iter().map(AnyCheck::Compile).collect(),
            AnyCheck::Bytecode(c) => c.shrink_candidates().into_iter().map(AnyCheck::Bytecode).collect(),
        }
    }

    pub fn primary_len(&self) -> usize {
        match self {
            AnyCheck::Prog(c) => c.case.program.chars().count(),
            AnyCheck::Tape(c) => c.ops.len(),
            AnyCheck::Svec(c) => c.ops.len(),
            AnyCheck::Cli(c) => c.primary_len(),
            AnyCheck::Compile(c) => c.program.chars().count(),
            AnyCheck::Bytecode(c) => c.program.chars().count(),
        }
    }

    /// Remove `len` atoms of the primary sequence starting at `start`, if the result is well-formed.
    pub fn remove_primary(&self, start: usize, len: usize) -> Option<AnyCheck> {
        match self {
            AnyCheck::Prog(c) => {
                let chars: Vec<char> = c.case.program.chars().collect();
                if start >= chars.len() {
                    return None;
                }
                let end = (start + len).min(chars.len());
                let cand: String = chars[..start].iter().chain(chars[end..].iter()).collect();
                if !crate::gen::balanced(&cand) {
                    return None;
                }
                let mut n = c.clone();
                n.case.program = cand;
                Some(AnyCheck::Prog(n))
            }
            AnyCheck::Tape(c) => {
                if start >= c.ops.len() {
                    return None;
                }
                let end = (start + len).min(c.ops.len());
                let mut n = c.clone();
                n.ops.drain(start..end);
                Some(AnyCheck::Tape(n))
            }
            AnyCheck::Svec(c) => {
                if start >= c.ops.len() {
                    return None;
                }
                let end = (start + len).min(c.ops.len());
                let mut n = c.clone();
                n.ops.drain(start..end);
                Some(AnyCheck::Svec(n))
            }
            AnyCheck::Cli(c) => c.remove_primary(start, len).map(AnyCheck::Cli),
            AnyCheck::Compile(c) => c.remove_primary(start, len).map(AnyCheck::Compile),
            AnyCheck::Bytecode(c) => c.remove_primary(start, len).map(AnyCheck::Bytecode),
        }
    }

    /// A size measure that strictly decreases along accepted shrink steps.
    pub fn size(&self) -> usize {
        match self {
            AnyCheck::Prog(c) => crate::minimize::prog_size(c),
            AnyCheck::Tape(c) => c.size(),
            AnyCheck::Svec(c) => c.size(),
            AnyCheck::Cli(c) => c.size(),
            AnyCheck::Compile(c) => c.size(),
            AnyCheck::Bytecode(c) => c.size(),
        }
    }
}

pub fn make(prop: &str, rng: &mut Rng, env: &GenEnv) -> Checks {
    match prop {
        "C09" => {
            let n = 8;
            let items = (0..n).map(|_| AnyCheck::Tape(crate::tape::generate(rng, prop))).collect();
            Checks { items, family: "tape-histories".into() }
        }
        "C11" => {
            let items = crate::bcheck::generate(rng, prop, &env.corpus).into_iter().map(AnyCheck::Bytecode).collect();
            Checks { items, family: "bytecode-contract".into() }
        }
        "C13" => {
            let items = (0..4).map(|_| AnyCheck::Compile(crate::compile::generate(rng, prop, &env.corpus))).collect();
            Checks { items, family: "compile-histories".into() }
        }
        "C16" => {
            let items = (0..8).map(|_| AnyCheck::Cli(crate::cli::generate(rng, prop, &env.corpus))).collect();
            Checks { items, family: "cli-scenarios".into() }
        }
        "C18" => {
            let items = (0..16).map(|_| AnyCheck::Svec(crate::svec::generate(rng, prop))).collect();
            Checks { items, family: "svec-histories".into() }
        }
        _ => {
            let (items, family) = props::make_checks(prop, rng, env);
            let mut items: Vec<AnyCheck> = items.into_iter().map(AnyCheck::Prog).collect();
            if prop == "C17" && rng.coin() {
                // the same clause at the API level: a request nobody can serve, panic caught
                items.push(AnyCheck::Tape(crate::tape::generate_impossible(rng, prop)));
            }
            Checks { items, family }
        }
    }
}

pub fn evaluate(c: &AnyCheck) -> Verdict {
    match c {
        AnyCheck::Prog(c) => check::evaluate(c),
        AnyCheck::Tape(c) => crate::tape::evaluate(c),
        AnyCheck::Svec(c) => crate::svec::evaluate(c),
        AnyCheck::Cli(c) => crate::cli::evaluate(c),
        AnyCheck::Compile(c) => crate::compile::evaluate(c),
        AnyCheck::Bytecode(c) => crate::bcheck::evaluate(c),
    }
}
