//! C16: the real `hpbf` binary in a generated process environment (argv order, files that
//! exist / don't / aren't UTF-8 / are directories, stdin contents and end). The OS is
//! real; everything the child can observe is generated from the seed.

use std::io::Write;
use std::os::unix::io::AsRawFd;
use std::path::PathBuf;
use std::process::{Command, Stdio};
use std::time::{Duration, Instant};

use serde_json::{json, Value};

use crate::case::{AllocPlan, Backend, Case, Mode};
use crate::check::Verdict;
use crate::exec::{self, ExecResult};
use crate::gen;
use crate::peer::{Ev, Fault, Peer};
use crate::refmodel::{self, Limits, Status};
use crate::rng::Rng;

#[derive(Clone, Debug, PartialEq)]
pub enum FileKind {
    Text(String),
    Bytes(Vec<u8>),
    Dir,
    Missing,
    /// a named pipe whose writer delivers the text once the program opens it
    Fifo(String),
}

#[derive(Clone, Debug, PartialEq)]
pub struct CliCheck {
    pub prop: String,
    pub argv: Vec<String>,
    pub files: Vec<(String, FileKind)>,
    pub stdin: Vec<u8>,
    /// address-space limit of the hpbf process in MiB (default 8192): with `--static` a small
    /// one makes the pre-growth of the tape a request the system refuses
    pub as_limit_mb: Option<u64>,
}

impl CliCheck {
    pub fn to_json(&self) -> Value {
        json!({
            "property": self.prop,
            "kind": "cli",
            "argv": self.argv,
            "files": self.files.iter().map(|(n, k)| match k {
                FileKind::Text(t) => json!({"name": n, "text": t}),
                FileKind::Bytes(b) => json!({"name": n, "bytes": b}),
                FileKind::Dir => json!({"name": n, "dir": true}),
                FileKind::Missing => json!({"name": n, "missing": true}),
                FileKind::Fifo(t) => json!({"name": n, "fifo": t}),
            }).collect::<Vec<_>>(),
            "stdin": self.stdin,
            "address_space_limit_mb": self.as_limit_mb,
        })
    }

    pub fn from_json(v: &Value) -> Option<CliCheck> {
        let mut files = Vec::new();
        for f in v.get("files")?.as_array()? {
            let n = f.get("name")?.as_str()?.to_string();
            let k = if let Some(t) = f.get("text").and_then(|x| x.as_str()) {
                FileKind::Text(t.to_string())
            } else if let Some(t) = f.get("fifo").and_then(|x| x.as_str()) {
                FileKind::Fifo(t.to_string())
            } else if let Some(b) = f.get("bytes").and_then(|x| x.as_array()) {
                FileKind::Bytes(b.iter().map(|x| x.as_u64().unwrap_or(0) as u8).collect())
            } else if f.get("dir").is_some() {
                FileKind::Dir
            } else {
                FileKind::Missing
            };
            files.push((n, k));
        }
        Some(CliCheck {
            prop: v.get("property")?.as_str()?.to_string(),
            argv: v.get("argv")?.as_array()?.iter().map(|x| x.as_str().unwrap_or("").to_string()).collect(),
            files,
            stdin: v.get("stdin")?.as_array()?.iter().map(|x| x.as_u64().unwrap_or(0) as u8).collect(),
            as_limit_mb: v.get("address_space_limit_mb").and_then(|x| x.as_u64()),
        })
    }

    pub fn size(&self) -> usize {
        self.argv.iter().map(|a| 50 + a.len()).sum::<usize>()
            + self.files.iter().map(|(_, k)| match k {
                FileKind::Text(t) => 20 + t.len(),
                FileKind::Fifo(t) => 40 + t.len(),
                FileKind::Bytes(b) => 20 + b.len(),
                _ => 20,
            }).sum::<usize>()
            + self.stdin.len()
    }

    pub fn shrink_candidates(&self) -> Vec<CliCheck> {
        let mut out = Vec::new();
        // shorten code-like arguments and file texts
        for (i, a) in self.argv.iter().enumerate() {
            if !a.is_empty() && a.chars().all(|c| "+-<>,.[]".contains(c)) && !is_flag(a) {
                let chars: Vec<char> = a.chars().collect();
                for cut in [chars.len() / 2, chars.len() / 16, 1] {
                    if cut == 0 || (cut == 1 && chars.len() > 3000) {
                        continue;
                    }
                    for start in (0..chars.len()).step_by(cut.max(1)) {
                        let cand: String = chars[..start].iter().chain(chars[(start + cut).min(chars.len())..].iter()).collect();
                        if gen::balanced(&cand) || !gen::balanced(a) {
                            let mut n = self.clone();
                            n.argv[i] = cand;
                            out.push(n);
                        }
                    }
                }
            }
        }
        for (i, (_, k)) in self.files.iter().enumerate() {
            if let FileKind::Fifo(t) = k {
                let mut n = self.clone();
                n.files[i].1 = FileKind::Text(t.clone());
                out.push(n);
            }
            if let FileKind::Text(t) | FileKind::Fifo(t) = k {
                let is_fifo = matches!(k, FileKind::Fifo(_));
                let chars: Vec<char> = t.chars().collect();
                // (single-character cuts only for short texts: every candidate is a copy)
                for cut in [chars.len() / 2, chars.len() / 16, 1] {
                    if cut == 0 || (cut == 1 && chars.len() > 3000) {
                        continue;
                    }
                    for start in (0..chars.len()).step_by(cut) {
                        let cand: String = chars[..start].iter().chain(chars[(start + cut).min(chars.len())..].iter()).collect();
                        let mut n = self.clone();
                        n.files[i].1 = if is_fifo { FileKind::Fifo(cand) } else { FileKind::Text(cand) };
                        out.push(n);
                    }
                }
            }
        }
        if !self.stdin.is_empty() {
            let mut n = self.clone();
            n.stdin.pop();
            out.push(n);
            let mut n = self.clone();
            n.stdin.clear();
            out.push(n);
        }
        out
    }

    pub fn primary_len(&self) -> usize {
        self.argv.len()
    }

    pub fn remove_primary(&self, start: usize, len: usize) -> Option<CliCheck> {
        if start >= self.argv.len() {
            return None;
        }
        let mut n = self.clone();
        let end = (start + len).min(n.argv.len());
        n.argv.drain(start..end);
        Some(n)
    }
}

fn is_flag(a: &str) -> bool {
    matches!(
        a,
        "--print-ir" | "--print-bc" | "--print-jit-bc" | "--print-jit-mc" | "--inplace" | "--ir-int" | "--bc-int" | "--base-jit"
            | "-O0" | "-O1" | "-O2" | "-O3" | "-O4" | "-O5" | "-i8" | "-i16" | "-i32" | "-i64" | "-h" | "-help" | "--help"
            | "-f" | "-file" | "--file" | "--limit" | "--static" | "--time"
    )
}

#[derive(Clone, Copy, Debug, PartialEq)]
enum Kind {
    PrintIr,
    PrintBc,
    PrintJitBc,
    PrintMc,
    Exec(Backend),
}

/// What the command line asks for, per the property statement and the help text.
struct Resolved {
    bits: u32,
    kind: Kind,
    opt: u32,
    limit: Option<u64>,
    safe: bool,
    has_error: bool,
    help: bool,
    time: bool,
    code: String,
}

fn resolve(c: &CliCheck) -> Resolved {
    let mut r = Resolved { bits: 8, kind: Kind::Exec(Backend::BaseJit), opt: 2, limit: None, safe: true, has_error: false, help: false, time: false, code: String::new() };
    let mut next_file = false;
    let mut next_limit = false;
    for a in &c.argv {
        if next_file {
            next_file = false;
            match c.files.iter().find(|(n, _)| n == a).map(|(_, k)| k) {
                Some(FileKind::Text(t)) | Some(FileKind::Fifo(t)) => r.code.push_str(t),
                _ => r.has_error = true,
            }
        } else if next_limit {
            next_limit = false;
            if let Ok(l) = a.parse::<u64>() {
                r.limit = Some(l);
            }
        } else {
            match a.as_str() {
                "--print-ir" => r.kind = Kind::PrintIr,
                "--print-bc" => r.kind = Kind::PrintBc,
                "--print-jit-bc" => r.kind = Kind::PrintJitBc,
                "--print-jit-mc" => r.kind = Kind::PrintMc,
                "--inplace" => r.kind = Kind::Exec(Backend::Inplace),
                "--ir-int" => r.kind = Kind::Exec(Backend::IrInt),
                "--bc-int" => r.kind = Kind::Exec(Backend::BcInt),
                "--base-jit" => r.kind = Kind::Exec(Backend::BaseJit),
                "-O0" => r.opt = 0,
                "-O1" => r.opt = 1,
                "-O2" => r.opt = 2,
                "-O3" => r.opt = 3,
                "-O4" => r.opt = 4,
                "-O5" => r.opt = 5,
                "-i8" => r.bits = 8,
                "-i16" => r.bits = 16,
                "-i32" => r.bits = 32,
                "-i64" => r.bits = 64,
                "-h" | "-help" | "--help" => r.help = true,
                "-f" | "-file" | "--file" => next_file = true,
                "--limit" => next_limit = true,
                "--static" => r.safe = false,
                "--time" => r.time = true,
                other => r.code.push_str(other),
            }
        }
    }
    r
}

fn hpbf_bin() -> PathBuf {
    let me = std::env::current_exe().unwrap_or_default();
    me.parent().map(|p| p.join("hpbf")).unwrap_or_else(|| PathBuf::from("hpbf"))
}

struct Ran {
    stdout: Vec<u8>,
    stderr: Vec<u8>,
    code: Option<i32>,
    signal: Option<i32>,
    stdin_offset: i64,
    hang: bool,
}

fn run_process(c: &CliCheck, serial: u64) -> Ran {
    // named after the parent so that it can sweep what a killed worker leaves behind
    let dir = std::env::temp_dir().join(format!("simcli-{}-{}-{}", unsafe { libc::getppid() }, std::process::id(), serial));
    let _ = std::fs::remove_dir_all(&dir);
    std::fs::create_dir_all(&dir).unwrap_or_else(|_| crate::parent::harness_error("cannot create temp dir"));
    let mut fifos: Vec<(std::ffi::CString, Vec<u8>)> = Vec::new();
    let mut writers = Vec::new();
    for (n, k) in &c.files {
        let p = dir.join(n);
        match k {
            FileKind::Text(t) => std::fs::write(&p, t.as_bytes()).unwrap(),
            FileKind::Bytes(b) => std::fs::write(&p, b).unwrap(),
            FileKind::Dir => std::fs::create_dir_all(&p).unwrap(),
            FileKind::Missing => {}
            FileKind::Fifo(t) => {
                let cp = std::ffi::CString::new(p.to_string_lossy().as_bytes()).unwrap();
                if unsafe { libc::mkfifo(cp.as_ptr(), 0o600) } != 0 {
                    crate::parent::harness_error("cannot create a named pipe");
                }
                fifos.push((cp, t.as_bytes().to_vec()));
            }
        }
    }
    let stdin_path = dir.join("stdin.bin");
    std::fs::write(&stdin_path, &c.stdin).unwrap();
    let stdin_file = std::fs::File::open(&stdin_path).unwrap();
    let fd = stdin_file.as_raw_fd();
    let out_path = dir.join("stdout.bin");
    let err_path = dir.join("stderr.bin");
    let mut child = Command::new(hpbf_bin());
    child
        .args(&c.argv)
        .current_dir(&dir)
        .stdin(Stdio::from(stdin_file.try_clone().unwrap()))
        .stdout(Stdio::from(std::fs::File::create(&out_path).unwrap()))
        .stderr(Stdio::from(std::fs::File::create(&err_path).unwrap()))
        .env("RUST_BACKTRACE", "0");
    let as_limit: u64 = c.as_limit_mb.unwrap_or(8192) << 20;
    // a broken binary must not be able to fill the disk or burn CPU for long
    unsafe {
        use std::os::unix::process::CommandExt;
        child.pre_exec(move || {
            let fsize = libc::rlimit { rlim_cur: 8 << 20, rlim_max: 8 << 20 };
            libc::setrlimit(libc::RLIMIT_FSIZE, &fsize);
            let cpu = libc::rlimit { rlim_cur: 10, rlim_max: 12 };
            libc::setrlimit(libc::RLIMIT_CPU, &cpu);
            // (--static reserves 4 GiB of address space with 64-bit cells; anything beyond
            // twice that is a runaway and ends in the allocation-failure abort)
            let mem = libc::rlimit { rlim_cur: as_limit, rlim_max: as_limit };
            libc::setrlimit(libc::RLIMIT_AS, &mem);
            // never outlive the worker (which the parent may kill at any moment)
            libc::prctl(libc::PR_SET_PDEATHSIG, libc::SIGKILL);
            Ok(())
        });
    }
    let mut child = child
        .spawn()
        .unwrap_or_else(|e| crate::parent::harness_error(&format!("cannot run {:?}: {}", hpbf_bin(), e)));
    let t0 = Instant::now();
    let mut hang = false;
    let status = loop {
        // the writer end of a named pipe can be opened as soon as the program waits in open()
        fifos.retain(|(path, text)| {
            let fd = unsafe { libc::open(path.as_ptr(), libc::O_WRONLY | libc::O_NONBLOCK | libc::O_CLOEXEC) };
            if fd < 0 {
                return true;
            }
            let text = text.clone();
            writers.push(std::thread::spawn(move || {
                use std::io::Write;
                use std::os::unix::io::FromRawFd;
                unsafe { libc::fcntl(fd, libc::F_SETFL, 0) };
                let mut f = unsafe { std::fs::File::from_raw_fd(fd) };
                let _ = f.write_all(&text);
            }));
            false
        });
        match child.try_wait() {
            Ok(Some(s)) => break Some(s),
            Ok(None) => {
                if t0.elapsed() > Duration::from_secs(90) {
                    hang = true;
                    let _ = child.kill();
                    let _ = child.wait();
                    break None;
                }
                std::thread::sleep(Duration::from_micros(300));
            }
            Err(_) => break None,
        }
    };
    for w in writers {
        let _ = w.join();
    }
    // the child shared our open file description: where did it leave the offset?
    let stdin_offset = unsafe { libc::lseek(fd, 0, libc::SEEK_CUR) } as i64;
    let r = Ran {
        stdout: std::fs::read(&out_path).unwrap_or_default(),
        stderr: std::fs::read(&err_path).unwrap_or_default(),
        code: status.and_then(|s| s.code()),
        signal: status.and_then(|s| std::os::unix::process::ExitStatusExt::signal(&s)),
        stdin_offset,
        hang,
    };
    let _ = std::fs::remove_dir_all(&dir);
    r
}

fn lib_print(r: &Resolved) -> Option<Vec<u8>> {
    use hpbf::{bc, ir};
    macro_rules! go {
        ($t:ty) => {{
            let p = ir::Program::<$t>::parse(&r.code).ok()?.optimize(r.opt);
            match r.kind {
                Kind::PrintIr => Some(format!("{:?}\n", p).into_bytes()),
                Kind::PrintBc => Some(format!("{:?}\n", bc::CodeGen::translate(&p, 2, true)).into_bytes()),
                Kind::PrintJitBc => Some(format!("{:?}\n", bc::CodeGen::translate(&p, 12, false)).into_bytes()),
                Kind::PrintMc => {
                    use hpbf::exec::{BaseJitCompiler, Executor};
                    Some(BaseJitCompiler::<$t>::create(&r.code, r.opt).ok()?.print_mc(r.limit.is_some(), r.safe))
                }
                _ => None,
            }
        }};
    }
    match r.bits {
        8 => go!(u8),
        16 => go!(u16),
        32 => go!(u32),
        _ => go!(u64),
    }
}

static SERIAL: std::sync::atomic::AtomicU64 = std::sync::atomic::AtomicU64::new(0);

pub fn evaluate(c: &CliCheck) -> Verdict {
    let mut v = Verdict::default();
    // one writer per named pipe: a pipe named by two -f options is not a history we can drive
    for (n, k) in &c.files {
        if matches!(k, FileKind::Fifo(_)) && c.argv.iter().filter(|a| *a == n).count() > 1 {
            v.add("invalid_fifo_named_twice", 1);
            return v;
        }
    }
    let nfifo = c.files.iter().filter(|(_, k)| matches!(k, FileKind::Fifo(_))).count() as u64;
    if nfifo > 0 {
        v.add("fired_code_through_named_pipe", nfifo);
    }
    let r = resolve(c);
    let peer = Peer { script: c.stdin.clone(), react_n: 0, react_l: 0, mask: 0xff };
    let balanced = gen::balanced(&r.code);
    let parsing = !matches!(r.kind, Kind::Exec(Backend::Inplace));
    // decide what we expect before running anything
    enum Want {
        Fail,
        Help,
        Exact(Vec<u8>),
        NonEmptyNoInput,
        /// machine code: equal to the library's rendering except inside the 8-byte immediates of
        /// `mov r64, imm64` (absolute addresses of the runtime's callbacks differ per process)
        McLike(Vec<u8>),
        /// the pre-growth of --static cannot be served: allocation-failure abort, no output
        AbortBeforeRunning,
        Skip(&'static str),
    }
    let want = if r.help {
        Want::Help
    } else if r.has_error {
        Want::Fail
    } else if !balanced {
        if parsing {
            Want::Fail
        } else {
            Want::Skip("unbalanced source on the non-parsing backend")
        }
    } else {
        match r.kind {
            Kind::PrintIr | Kind::PrintBc | Kind::PrintJitBc => match lib_print(&r) {
                Some(b) => Want::Exact(b),
                None => Want::Skip("library could not render"),
            },
            Kind::PrintMc => match lib_print(&r) {
                Some(b) => Want::McLike(b),
                None => Want::NonEmptyNoInput,
            },
            Kind::Exec(_) if c.as_limit_mb.map(|m| m <= 400).unwrap_or(false) && !r.safe && r.limit.is_none() => Want::AbortBeforeRunning,
            Kind::Exec(backend) => {
                let rr = refmodel::run(
                    &r.code,
                    r.bits,
                    &peer,
                    Limits { max_steps: 3_000_000, max_events: 1 << 16, min_events_on_cycle: 0, accelerate: true, mute_output: false },
                );
                v.ref_steps = rr.steps;
                v.nontrivial = rr.loop_iters >= 1 && !rr.events.is_empty();
                let slow = !backend.optimizing() || r.opt == 0;
                let affordable = rr.canon_steps <= if slow { 30_000_000 } else { u64::MAX };
                if let Some(limit) = r.limit {
                    // the limited entry point: the library with the resolved configuration is the oracle
                    if rr.status == Status::Unbalanced {
                        Want::Skip("unbalanced")
                    } else {
                        let case = Case {
                            program: r.code.clone(),
                            width: r.bits,
                            backend,
                            level: r.opt,
                            mode: Mode::Limited(limit),
                            peer: peer.clone(),
                            fault: Fault::None,
                            pregrow: None,
                            far_move: None,
                            junk: 1,
                            alloc: AllocPlan::OFF,
                            hash_seed: 0,
                            max_events: 1 << 20,
                        };
                        if limit > (1 << 24) && !(rr.status == Status::Halted && rr.canon_steps <= 4_000_000) {
                            Want::Skip("unbounded limited run")
                        } else {
                            let o = exec::execute(&case);
                            v.executions += 1;
                            match o.result {
                                ExecResult::Returned(_) => Want::Exact(o.events.iter().filter_map(|e| if let Ev::Out(b) = e { Some(*b) } else { None }).collect()),
                                _ => Want::Skip("library run failed"),
                            }
                        }
                    }
                } else if rr.status == Status::Halted && affordable {
                    Want::Exact(rr.events.iter().filter_map(|e| if let Ev::Out(b) = e { Some(*b) } else { None }).collect())
                } else {
                    Want::Skip("canonical run does not halt within the bounds")
                }
            }
        }
    };
    if let Want::Skip(why) = want {
        v.nontrivial = false;
        v.bump(&format!("skipped_{}", why.replace(' ', "_")));
        return v;
    }
    let serial = SERIAL.fetch_add(1, std::sync::atomic::Ordering::Relaxed);
    let ran = run_process(c, serial);
    v.executions += 1;
    if ran.hang {
        v.fail("hang", 0, "hpbf did not exit within 90 s of wall-clock time (it is also limited to 10 s of CPU time)".into());
        return v;
    }
    if let Want::AbortBeforeRunning = want {
        v.bump("fired_address_space_limit");
        v.nontrivial = true;
        if ran.signal == Some(libc::SIGABRT) || ran.code == Some(101) {
            if !ran.stdout.is_empty() {
                v.fail("output-before-abort", 0, format!("--static under a {} MiB address-space limit: the tape cannot be reserved, yet {} bytes were written to stdout before the abort", c.as_limit_mb.unwrap_or(0), ran.stdout.len()));
            }
        } else {
            v.fail(
                "continued-after-alloc-failure",
                0,
                format!("--static under a {} MiB address-space limit: the tape (at least 512 MiB) cannot be reserved; expected the allocation-failure abort (or a panic), got exit code {:?} signal {:?}, stdout {} bytes, stderr {:?}", c.as_limit_mb.unwrap_or(0), ran.code, ran.signal, ran.stdout.len(), String::from_utf8_lossy(&ran.stderr[..ran.stderr.len().min(120)])),
            );
        }
        return v;
    }
    let mut out = ran.stdout.clone();
    if r.time {
        // strip the trailing "time: ...\n" line
        if let Some(pos) = out.windows(6).rposition(|w| w == b"time: ") {
            out.truncate(pos);
        } else {
            v.fail("missing-time-line", 0, "--time given but no `time:` line on stdout".into());
        }
    }
    if ran.code.is_none() {
        // killed by a signal: SIGXCPU after 10 s of CPU time means it ran away, anything else is a crash
        v.fail("killed-by-signal", 0, "hpbf was killed by a signal (10 s CPU limit exceeded, file-size limit exceeded, or a crash)".into());
        return v;
    }
    let show = |b: &[u8]| -> String { format!("{:?}", String::from_utf8_lossy(&b[..b.len().min(80)])) };
    match want {
        Want::Fail => {
            v.bump("expect_failure");
            if ran.code != Some(1) {
                v.fail("wrong-exit-status", 0, format!("expected exit status 1 with a diagnostic, got {:?}; stderr {}", ran.code, show(&ran.stderr)));
            } else if ran.stderr.is_empty() {
                v.fail("no-diagnostic", 0, "exit status 1 but nothing on stderr".into());
            } else if !out.is_empty() {
                v.fail("output-despite-error", 0, format!("exit status 1 but stdout has {}", show(&out)));
            }
        }
        Want::Help => {
            v.bump("expect_help");
            if !out.starts_with(b"Usage:") {
                v.fail("no-help", 0, format!("-h given but stdout starts with {}", show(&out)));
            }
            if ran.code != Some(if r.has_error { 1 } else { 0 }) {
                v.fail("wrong-exit-status", 0, format!("help run exited with {:?}", ran.code));
            }
        }
        Want::Exact(bytes) => {
            v.bump(match r.kind {
                Kind::Exec(_) if r.limit.is_some() => "expect_limited_output",
                Kind::Exec(_) if !r.safe => "expect_static_output",
                Kind::Exec(_) => "expect_output",
                _ => "expect_print",
            });
            if ran.code != Some(0) {
                v.fail("wrong-exit-status", 0, format!("expected exit status 0, got {:?}; stderr {}", ran.code, show(&ran.stderr)));
            } else if out != bytes {
                let at = out.iter().zip(bytes.iter()).position(|(a, b)| a != b).unwrap_or(out.len().min(bytes.len()));
                v.fail(
                    "wrong-stdout",
                    at,
                    format!(
                        "stdout differs at byte {}: got {} bytes {:?}.. want {} bytes {:?}.. (resolved: i{} {:?} -O{} limit {:?} safe {})",
                        at,
                        out.len(),
                        &out[at.saturating_sub(2).min(out.len())..(at + 6).min(out.len())],
                        bytes.len(),
                        &bytes[at.saturating_sub(2).min(bytes.len())..(at + 6).min(bytes.len())],
                        r.bits,
                        r.kind,
                        r.opt,
                        r.limit,
                        r.safe
                    ),
                );
            }
            if !matches!(r.kind, Kind::Exec(_)) && ran.stdin_offset != 0 {
                v.fail("print-option-consumed-input", 0, format!("a print option left the stdin offset at {}", ran.stdin_offset));
            }
        }
        Want::McLike(bytes) => {
            v.bump("expect_print_mc");
            if ran.code != Some(0) || out.is_empty() {
                v.fail("wrong-exit-status", 0, format!("--print-jit-mc: status {:?}, {} bytes", ran.code, out.len()));
            } else if let Some(at) = mc_differs(&out, &bytes) {
                v.fail(
                    "wrong-machine-code",
                    at,
                    format!(
                        "--print-jit-mc differs from the library's machine code for the resolved configuration (i{} -O{} limited {} safe {}) at byte {} outside any 64-bit immediate: got {} bytes, want {} bytes",
                        r.bits,
                        r.opt,
                        r.limit.is_some(),
                        r.safe,
                        at,
                        out.len(),
                        bytes.len()
                    ),
                );
            }
            if ran.stdin_offset != 0 {
                v.fail("print-option-consumed-input", 0, format!("a print option left the stdin offset at {}", ran.stdin_offset));
            }
        }
        Want::NonEmptyNoInput => {
            v.bump("expect_print");
            if ran.code != Some(0) || out.is_empty() {
                v.fail("wrong-exit-status", 0, format!("--print-jit-mc: status {:?}, {} bytes", ran.code, out.len()));
            }
            if ran.stdin_offset != 0 {
                v.fail("print-option-consumed-input", 0, format!("a print option left the stdin offset at {}", ran.stdin_offset));
            }
        }
        Want::Skip(_) | Want::AbortBeforeRunning => {}
    }
    v
}

/// First position at which two renderings of machine code differ outside the immediate of a
/// `REX.W B8+r imm64` instruction present at the same place in both (None: alike).
fn mc_differs(a: &[u8], b: &[u8]) -> Option<usize> {
    if a.len() != b.len() {
        return Some(a.len().min(b.len()));
    }
    let is_mov = |x: &[u8], p: usize| p >= 2 && (x[p - 2] == 0x48 || x[p - 2] == 0x49) && (x[p - 1] & 0xf8) == 0xb8;
    let mut i = 0;
    while i < a.len() {
        if a[i] == b[i] {
            i += 1;
            continue;
        }
        match (i.saturating_sub(7)..=i).rev().find(|&p| is_mov(a, p) && is_mov(b, p) && p + 8 <= a.len()) {
            Some(p) => i = p + 8,
            None => return Some(i),
        }
    }
    None
}

/// A program whose output reveals the cell width: builds 2^k by repeated multiplication
/// by 4 and prints whether the result is non-zero.
fn width_probe(k: u32) -> String {
    let mut s = String::from("+");
    for _ in 0..k / 2 {
        s.push_str("[>++++<-]>[<+>-]<");
    }
    s.push_str("[>+<[-]]>.<");
    s
}

pub fn generate(rng: &mut Rng, prop: &str, corpus: &[String]) -> CliCheck {
    let mut argv: Vec<String> = Vec::new();
    let mut files = Vec::new();
    // configuration flags, each present 0..2 times
    let mut flags: Vec<String> = Vec::new();
    let widths = ["-i8", "-i16", "-i32", "-i64"];
    let backends = ["--inplace", "--ir-int", "--bc-int", "--base-jit"];
    let levels = ["-O0", "-O1", "-O2", "-O3", "-O4", "-O5"];
    for _ in 0..rng.below(3) {
        flags.push(rng.pick(&widths).to_string());
    }
    for _ in 0..rng.below(3) {
        flags.push(rng.pick(&backends).to_string());
    }
    for _ in 0..rng.below(3) {
        flags.push(rng.pick(&levels).to_string());
    }
    // independent choices, so that combinations (e.g. --static with --limit) occur
    if rng.chance(3, 20) {
        flags.push(rng.pick(&["--print-ir", "--print-bc", "--print-jit-bc", "--print-jit-mc"]).to_string());
    }
    let with_limit = rng.chance(5, 20);
    if rng.chance(1, 12) {
        flags.push("--static".into());
        flags.retain(|f| !f.starts_with("-i"));
    }
    if rng.chance(1, 20) {
        flags.push("--time".into());
    }
    if rng.chance(1, 30) {
        flags.push("-h".into());
    }
    // code
    let slow_cfg = flags.iter().any(|f| f == "--inplace" || f == "-O0");
    let family = *rng.pick(&[gen::Family::Raw, gen::Family::Corpus, gen::Family::Structured, gen::Family::Structured, gen::Family::Roamer]);
    let mut code = gen::program(rng, family, 8, corpus, false);
    if rng.chance(1, 3) {
        let k = if slow_cfg { *rng.pick(&[8u32, 16]) } else { *rng.pick(&[8u32, 16, 32]) };
        code = format!("{}{}", width_probe(k), code);
    }
    if with_limit && rng.coin() {
        // printing loops make the budget visible on stdout
        code = format!("{}{}", rng.pick(&["+[.+]", "+[>+.<]", ",[.-]", "+[[.-]+]"]), "");
    }
    // a code fragment must not be an option; "-h" is the only option made of commands
    let bad = |s: &str| s == "-h";
    // split into 1..3 fragments at bracket-agnostic points
    let chars: Vec<char> = code.chars().collect();
    let nfrag = rng.urange(1, 3).min(chars.len().max(1));
    let mut cuts: Vec<usize> = (0..nfrag - 1).map(|_| rng.urange(0, chars.len())).collect();
    cuts.sort();
    cuts.push(chars.len());
    let mut frags = Vec::new();
    let mut prev = 0;
    for c in cuts {
        frags.push(chars[prev..c].iter().collect::<String>());
        prev = c;
    }
    let mut code_args: Vec<Vec<String>> = Vec::new();
    for (i, f) in frags.iter().enumerate() {
        // (a single argument may not exceed 128 KiB: long fragments always go into a file)
        if rng.chance(2, 5) || bad(f) || is_flag(f) || f.len() > 50_000 {
            let name = format!("prog{}.bf", i);
            // now and then the code comes through a named pipe (size unknown, not seekable)
            let kind = if rng.chance(1, 10) { FileKind::Fifo(f.clone()) } else { FileKind::Text(f.clone()) };
            files.push((name.clone(), kind));
            code_args.push(vec![rng.pick(&["-f", "--file", "-file"]).to_string(), name]);
        } else {
            code_args.push(vec![f.clone()]);
        }
    }
    // a source file read in blocks: a multi-byte comment character straddling a block
    // boundary (4 KiB ... 128 KiB) behind comment filler, in front of the code
    if rng.chance(1, 20) {
        if let Some((_, FileKind::Text(t) | FileKind::Fifo(t))) = files.iter_mut().find(|(_, k)| matches!(k, FileKind::Text(_) | FileKind::Fifo(_))) {
            let boundary = *rng.pick(&[4096usize, 8192, 16384, 32768, 65536, 65536, 131072]);
            let ch = *rng.pick(&["é", "→", "𝄞"]);
            let before = rng.urange(1, ch.len() - 1);
            let filler: String = (0..boundary - before).map(|i| if i % 61 == 60 { '\n' } else { 'c' }).collect();
            *t = format!("{}{}{}", filler, ch, t);
        }
    }
    // faults
    match rng.below(24) {
        0 => {
            files.push(("nope.bf".into(), FileKind::Missing));
            code_args.push(vec!["-f".into(), "nope.bf".into()]);
        }
        1 => {
            files.push(("adir".into(), FileKind::Dir));
            code_args.push(vec!["-f".into(), "adir".into()]);
        }
        2 => {
            files.push(("latin1.bf".into(), FileKind::Bytes(vec![b'+', 0xff, 0xfe, b'.'])));
            code_args.push(vec!["--file".into(), "latin1.bf".into()]);
        }
        3 => {
            files.push(("empty.bf".into(), FileKind::Text(String::new())));
            code_args.push(vec!["-f".into(), "empty.bf".into()]);
        }
        4 => {
            // unbalanced source
            code_args.push(vec![rng.pick(&["[", "]", "[[]", "+]+["]).to_string()]);
        }
        5 => {
            // a multi-byte character cut in two by a file boundary: neither file is UTF-8 on
            // its own, whatever their concatenation looks like
            let ch = rng.pick(&["é", "€", "𝄞"]).as_bytes().to_vec();
            let cut = rng.urange(1, ch.len() - 1);
            let mut first = b"+".to_vec();
            first.extend_from_slice(&ch[..cut]);
            let mut second = ch[cut..].to_vec();
            second.extend_from_slice(b"+.");
            files.push(("half1.bf".into(), FileKind::Bytes(first)));
            files.push(("half2.bf".into(), FileKind::Bytes(second)));
            code_args.push(vec!["-f".into(), "half1.bf".into(), "-f".into(), "half2.bf".into()]);
        }
        _ => {}
    }
    // a faulty or extra file argument may sit anywhere among the code arguments
    if code_args.len() > frags.len() {
        let extra = code_args.pop().unwrap();
        let at = rng.urange(0, code_args.len());
        code_args.insert(at, extra);
    }
    // interleave: flags in random positions among the code arguments, code order preserved
    let mut flag_groups: Vec<Vec<String>> = flags.into_iter().map(|f| vec![f]).collect();
    if with_limit {
        let n = match rng.below(6) {
            0 => "0".to_string(),
            1 => rng.range(1, 40).to_string(),
            2 => rng.range(40, 3000).to_string(),
            3 => "1099511627776".to_string(),
            4 => "many".to_string(), // ignored with a message
            _ => rng.range(2, 200).to_string(),
        };
        flag_groups.push(vec!["--limit".into(), n]);
        if rng.chance(1, 4) {
            // a second --limit: the last valid one wins, an invalid one is ignored
            let m = match rng.below(3) {
                0 => "oops".to_string(),
                1 => rng.range(1, 60).to_string(),
                _ => "".to_string(),
            };
            flag_groups.push(vec!["--limit".into(), m]);
        }
    }
    let total = flag_groups.len() + code_args.len();
    let mut fi = 0;
    let mut ci = 0;
    for _ in 0..total {
        let take_flag = if fi >= flag_groups.len() {
            false
        } else if ci >= code_args.len() {
            true
        } else {
            rng.below((flag_groups.len() - fi + code_args.len() - ci) as u64) < (flag_groups.len() - fi) as u64
        };
        if take_flag {
            argv.extend(flag_groups[fi].iter().cloned());
            fi += 1;
        } else {
            argv.extend(code_args[ci].iter().cloned());
            ci += 1;
        }
    }
    if rng.chance(1, 30) {
        argv.push("-f".into()); // operand missing: ignored with a message
    }
    let peer = Peer::generate(rng);
    let stdin: Vec<u8> = peer.script.iter().map(|b| b & peer.mask).collect();
    // --static reserves 2^29 cells up front: under a small address-space limit that request is
    // refused by the system (a fault no allocator hook sees)
    let as_limit_mb = if argv.iter().any(|a| a == "--static") && rng.chance(1, 3) { Some(*rng.pick(&[128u64, 256, 400])) } else { None };
    CliCheck { prop: prop.to_string(), argv, files, stdin, as_limit_mb }
}
