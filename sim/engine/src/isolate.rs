//! Sacrificial execution: run a closure in a forked child of the (single-threaded)
//! worker, so that a run that is *expected* to die costs ~0.2 ms instead of a worker.

use std::time::{Duration, Instant};

#[derive(Clone, Debug, PartialEq)]
pub enum ChildEnd {
    /// child wrote this payload and exited normally
    Exited(String),
    /// child died; payload of its `SIG` line ("<NAME> <addr> <class> <block> <size>") if any
    Died { sig: Option<String>, status: i32 },
    Hang,
}

/// Run `f` in a forked child. `f` returns a one-line payload that is passed back.
pub fn run_forked(f: impl FnOnce() -> String, timeout: Duration) -> ChildEnd {
    unsafe {
        let mut fds = [0 as libc::c_int; 2];
        if libc::pipe(fds.as_mut_ptr()) != 0 {
            crate::parent::harness_error("pipe failed");
        }
        // make sure nothing buffered is written twice
        use std::io::Write;
        let _ = std::io::stdout().flush();
        let pid = libc::fork();
        if pid < 0 {
            crate::parent::harness_error("fork failed");
        }
        if pid == 0 {
            // child: fd 1 becomes the pipe, so the fatal-signal handler reports to our parent
            libc::prctl(libc::PR_SET_PDEATHSIG, libc::SIGKILL);
            libc::close(fds[0]);
            libc::dup2(fds[1], 1);
            libc::close(fds[1]);
            let payload = match std::panic::catch_unwind(std::panic::AssertUnwindSafe(f)) {
                Ok(p) => p,
                Err(_) => libc::_exit(3),
            };
            let line = format!("R {}\n", payload);
            libc::write(1, line.as_ptr() as *const _, line.len());
            libc::_exit(0);
        }
        libc::close(fds[1]);
        // parent: read until EOF with a deadline
        let flags = libc::fcntl(fds[0], libc::F_GETFL);
        libc::fcntl(fds[0], libc::F_SETFL, flags | libc::O_NONBLOCK);
        let t0 = Instant::now();
        let mut data = Vec::new();
        let mut buf = [0u8; 4096];
        let mut hang = false;
        loop {
            let n = libc::read(fds[0], buf.as_mut_ptr() as *mut _, buf.len());
            if n > 0 {
                data.extend_from_slice(&buf[..n as usize]);
            } else if n == 0 {
                break;
            } else {
                let mut pfd = libc::pollfd { fd: fds[0], events: libc::POLLIN, revents: 0 };
                let left = timeout.saturating_sub(t0.elapsed());
                if left.is_zero() {
                    hang = true;
                    libc::kill(pid, libc::SIGKILL);
                    break;
                }
                libc::poll(&mut pfd, 1, left.as_millis().min(100) as i32);
            }
        }
        libc::close(fds[0]);
        let mut status = 0;
        libc::waitpid(pid, &mut status, 0);
        if hang {
            return ChildEnd::Hang;
        }
        let text = String::from_utf8_lossy(&data).to_string();
        let mut sig = None;
        let mut payload = None;
        for l in text.lines() {
            if let Some(s) = l.strip_prefix("SIG ") {
                sig = Some(s.to_string());
            } else if let Some(p) = l.strip_prefix("R ") {
                payload = Some(p.to_string());
            }
        }
        if let (Some(p), true) = (payload, libc::WIFEXITED(status) && libc::WEXITSTATUS(status) == 0) {
            ChildEnd::Exited(p)
        } else {
            ChildEnd::Died { sig, status }
        }
    }
}
