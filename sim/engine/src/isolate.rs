//! Sacrificial execution: run a closure in a forked child of the (single-threaded)
//! worker, so that a run that is *expected* to die costs ~0.2 ms instead of a worker.

use std::time::{Duration, Instant};

/// One page shared between a worker and its forked children: byte 0 is set by a child once it
/// has caught a panic of the code under test (so that a death *after* that point is told apart
/// from the allocation-failure abort that ends a refused growth request).
static SHARED: std::sync::atomic::AtomicPtr<u8> = std::sync::atomic::AtomicPtr::new(std::ptr::null_mut());

fn shared_page() -> *mut u8 {
    use std::sync::atomic::Ordering;
    let p = SHARED.load(Ordering::Relaxed);
    if !p.is_null() {
        return p;
    }
    let m = unsafe { libc::mmap(std::ptr::null_mut(), 4096, libc::PROT_READ | libc::PROT_WRITE, libc::MAP_SHARED | libc::MAP_ANONYMOUS, -1, 0) };
    if m == libc::MAP_FAILED {
        crate::parent::harness_error("cannot map the shared flag page");
    }
    SHARED.store(m as *mut u8, Ordering::Relaxed);
    m as *mut u8
}

/// Parent side, before forking: clear the flag.
pub fn clear_panic_caught() {
    unsafe { std::ptr::write_volatile(shared_page(), 0) };
}

/// Child side: a panic of the code under test has just been caught.
pub fn mark_panic_caught() {
    let p = SHARED.load(std::sync::atomic::Ordering::Relaxed);
    if !p.is_null() {
        unsafe { std::ptr::write_volatile(p, 1) };
    }
}

/// Parent side, after the child is gone.
pub fn panic_was_caught() -> bool {
    unsafe { std::ptr::read_volatile(shared_page()) != 0 }
}

#[derive(Clone, Debug, PartialEq)]
pub enum ChildEnd {
    /// child wrote this payload and exited normally
    Exited(String),
    /// child died; payload of its `SIG` line ("<NAME> <addr> <class> <block> <size>") if any
    Died { sig: Option<String>, status: i32 },
    Hang,
}

/// Run `f` in a forked child. `f` returns a one-line payload that is passed back.
pub fn run_forked(f: impl FnOnce() -> String, timeout: Duration) -> ChildEnd {
    unsafe {
        let mut fds = [0 as libc::c_int; 2];
        if libc::pipe(fds.as_mut_ptr()) != 0 {
            crate::parent::harness_error("pipe failed");
        }
        // make sure nothing buffered is written twice
        use std::io::Write;
        let _ = std::io::stdout().flush();
        let pid = libc::fork();
        if pid < 0 {
            crate::parent::harness_error("fork failed");
        }
        if pid == 0 {
            // child: fd 1 becomes the pipe, so the fatal-signal handler reports to our parent
            libc::prctl(libc::PR_SET_PDEATHSIG, libc::SIGKILL);
            libc::close(fds[0]);
            libc::dup2(fds[1], 1);
            libc::close(fds[1]);
            let payload = match std::panic::catch_unwind(std::panic::AssertUnwindSafe(f)) {
                Ok(p) => p,
                Err(_) => libc::_exit(3),
            };
            let line = format!("R {}\n", payload);
            libc::write(1, line.as_ptr() as *const _, line.len());
            libc::_exit(0);
        }
        libc::close(fds[1]);
        // parent: read until EOF with a deadline
        let flags = libc::fcntl(fds[0], libc::F_GETFL);
        libc::fcntl(fds[0], libc::F_SETFL, flags | libc::O_NONBLOCK);
        let t0 = Instant::now();
        let mut data = Vec::new();
        let mut buf = [0u8; 4096];
        let mut hang = false;
        loop {
            let n = libc::read(fds[0], buf.as_mut_ptr() as *mut _, buf.len());
            if n > 0 {
                data.extend_from_slice(&buf[..n as usize]);
            } else if n == 0 {
                break;
            } else {
                let mut pfd = libc::pollfd { fd: fds[0], events: libc::POLLIN, revents: 0 };
                let left = timeout.saturating_sub(t0.elapsed());
                if left.is_zero() {
                    hang = true;
                    libc::kill(pid, libc::SIGKILL);
                    break;
                }
                libc::poll(&mut pfd, 1, left.as_millis().min(100) as i32);
            }
        }
        libc::close(fds[0]);
        let mut status = 0;
        libc::waitpid(pid, &mut status, 0);
        if hang {
            return ChildEnd::Hang;
        }
        let text = String::from_utf8_lossy(&data).to_string();
        let mut sig = None;
        let mut payload = None;
        for l in text.lines() {
            if let Some(s) = l.strip_prefix("SIG ") {
                sig = Some(s.to_string());
            } else if let Some(p) = l.strip_prefix("R ") {
                payload = Some(p.to_string());
            }
        }
        if let (Some(p), true) = (payload, libc::WIFEXITED(status) && libc::WEXITSTATUS(status) == 0) {
            ChildEnd::Exited(p)
        } else {
            ChildEnd::Died { sig, status }
        }
    }
}
