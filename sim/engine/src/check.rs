//! A *check* is one self-contained, replayable judgement: a case (or a history) plus
//! the oracle to apply to it. `evaluate` runs the real code and compares with the
//! reference model. Replay files contain exactly one `Check`.

use std::collections::BTreeMap;

use serde_json::{json, Value};

use crate::case::{Case, Mode};
use crate::exec::{self, ExecResult, Outcome};
use crate::peer::{show_events, Ev, Fault};
use crate::refmodel::{self, Limits, RefRun, Status};

#[derive(Clone, Debug, PartialEq)]
pub enum Kind {
    /// History must equal the canonical one (pre-flight in limited mode, then `execute`).
    Equiv,
    /// `execute_limited` with the budget in the case: finished ⇒ complete, else prefix.
    Budget,
    /// Single I/O fault: canonical prefix, fault is the last event, returns `Ok`.
    IoFault,
    /// Canonically divergent program: never finishes, outputs preserved.
    Diverge,
    /// `execute_unsafe` inside a pre-grown region.
    Static,
    /// The k-th allocation request during execution fails (forked child).
    AllocFail,
}

impl Kind {
    pub fn name(&self) -> &'static str {
        match self {
            Kind::Equiv => "equiv",
            Kind::Budget => "budget",
            Kind::IoFault => "iofault",
            Kind::Diverge => "diverge",
            Kind::Static => "static",
            Kind::AllocFail => "allocfail",
        }
    }

    pub fn from_name(s: &str) -> Option<Kind> {
        Some(match s {
            "equiv" => Kind::Equiv,
            "budget" => Kind::Budget,
            "iofault" => Kind::IoFault,
            "diverge" => Kind::Diverge,
            "static" => Kind::Static,
            "allocfail" => Kind::AllocFail,
            _ => return None,
        })
    }
}

#[derive(Clone, Debug, PartialEq)]
pub struct Check {
    pub prop: String,
    pub kind: Kind,
    pub case: Case,
    /// cap on reference steps
    pub ref_steps: u64,
    /// programs whose canonical step count is above this are only run in limited mode
    pub exec_cap: u64,
}

impl Check {
    pub fn to_json(&self) -> Value {
        json!({
            "property": self.prop,
            "kind": self.kind.name(),
            "case": self.case.to_json(),
            "ref_steps": self.ref_steps,
            "exec_cap": self.exec_cap,
        })
    }

    pub fn from_json(v: &Value) -> Option<Check> {
        Some(Check {
            prop: v.get("property")?.as_str()?.to_string(),
            kind: Kind::from_name(v.get("kind")?.as_str()?)?,
            case: Case::from_json(v.get("case")?)?,
            ref_steps: v.get("ref_steps")?.as_u64()?,
            exec_cap: v.get("exec_cap")?.as_u64()?,
        })
    }
}

#[derive(Clone, Debug, Default)]
pub struct Verdict {
    /// `None` = held. Otherwise a violation class such as "diff", "panic", "not-finished".
    pub class: Option<String>,
    /// index of the first bad event (or 0)
    pub at: usize,
    pub detail: String,
    /// executions of real code performed
    pub executions: u64,
    /// the reference did something worth calling a test (≥1 loop iteration and ≥1 I/O event)
    pub nontrivial: bool,
    pub stats: BTreeMap<String, u64>,
    /// reference steps simulated (for "simulated time")
    pub ref_steps: u64,
    /// digest of process-independent artefacts (C13), compared across processes by the parent
    pub artefact: Option<String>,
}

impl Verdict {
    pub fn bump(&mut self, k: &str) {
        *self.stats.entry(k.to_string()).or_insert(0) += 1;
    }

    pub fn add(&mut self, k: &str, n: u64) {
        *self.stats.entry(k.to_string()).or_insert(0) += n;
    }

    pub fn fail(&mut self, class: &str, at: usize, detail: String) {
        if self.class.is_none() {
            self.class = Some(class.to_string());
            self.at = at;
            self.detail = detail;
        }
    }
}

pub fn reference(c: &Check, min_events_on_cycle: usize, mute_output: bool) -> RefRun {
    refmodel::run(
        &c.case.program,
        c.case.width,
        &c.case.peer,
        Limits {
            max_steps: c.ref_steps,
            max_events: 1 << 16,
            min_events_on_cycle,
            accelerate: true,
            mute_output,
        },
    )
}

/// First index where the two histories differ, or None if one is a prefix of the other.
fn first_diff(a: &[Ev], b: &[Ev]) -> Option<usize> {
    let n = a.len().min(b.len());
    (0..n).find(|&i| a[i] != b[i])
}

fn describe(got: &[Ev], want: &[Ev], at: usize) -> String {
    let lo = at.saturating_sub(3);
    format!(
        "first difference at event {}: got [{}] want [{}] (got {} events, want {})",
        at,
        show_events(&got[lo.min(got.len())..], 8),
        show_events(&want[lo.min(want.len())..], 8),
        got.len(),
        want.len()
    )
}

/// `got` must be exactly `want`.
fn expect_equal(v: &mut Verdict, got: &[Ev], want: &[Ev], what: &str) {
    if let Some(i) = first_diff(got, want) {
        v.fail("diff", i, format!("{}: {}", what, describe(got, want, i)));
    } else if got.len() < want.len() {
        v.fail("missing-events", got.len(), format!("{}: {}", what, describe(got, want, got.len())));
    } else if got.len() > want.len() {
        v.fail("extra-events", want.len(), format!("{}: {}", what, describe(got, want, want.len())));
    }
}

/// `got` must be a prefix of `want`.
fn expect_prefix(v: &mut Verdict, got: &[Ev], want: &[Ev], what: &str) {
    if let Some(i) = first_diff(got, want) {
        v.fail("diff", i, format!("{}: {}", what, describe(got, want, i)));
    } else if got.len() > want.len() {
        v.fail("extra-events", want.len(), format!("{}: {}", what, describe(got, want, want.len())));
    }
}

/// Neither history may contradict the other (one is a prefix of the other).
fn expect_consistent(v: &mut Verdict, got: &[Ev], want: &[Ev], what: &str) {
    if let Some(i) = first_diff(got, want) {
        v.fail("diff", i, format!("{}: {}", what, describe(got, want, i)));
    }
}

/// Things that are wrong whatever the oracle: panics, errors, odd calls on the seams.
fn expect_clean(v: &mut Verdict, o: &Outcome, what: &str) -> Option<bool> {
    if o.odd_calls > 0 {
        v.fail("seam-contract", 0, format!("{}: Read/Write called with a buffer that is not one byte ({} times)", what, o.odd_calls));
    }
    if o.alloc.canary_hits > 0 {
        v.fail("canary", 0, format!("{}: bytes next to a heap block were overwritten ({} blocks)", what, o.alloc.canary_hits));
    }
    if o.alloc.size_mismatch > 0 {
        v.fail("dealloc-layout", 0, format!("{}: a block was freed with a different layout than it was requested with", what));
    }
    if o.alloc.overflow > 0 {
        v.add("guard_arena_overflow_requests", o.alloc.overflow);
    }
    if o.alloc.requests > 0 {
        // how often each allocator decision actually happened (fault-kind counters)
        v.add("fired_alloc_guarded_requests", o.alloc.requests);
        v.add("fired_alloc_placed_flush_right", o.alloc.right_placed);
        v.add("fired_alloc_placed_flush_left", o.alloc.left_placed);
        v.add("fired_alloc_same_address_reuse", o.alloc.reused);
        v.add("fired_alloc_zeroed_requests", o.alloc.zeroed);
    }
    match &o.result {
        ExecResult::Returned(f) => Some(*f),
        ExecResult::Error(e) => {
            v.fail("error", 0, format!("{}: entry point returned Err({})", what, e));
            None
        }
        ExecResult::CreateError(e, p) => {
            v.fail("create-error", 0, format!("{}: create returned Err({} at {})", what, e, p));
            None
        }
        ExecResult::CreatePanic(m) => {
            v.fail("create-panic", 0, format!("{}: create panicked: {}", what, m));
            None
        }
        ExecResult::Panic(m) => {
            v.fail("panic", 0, format!("{}: execution panicked: {}", what, m));
            None
        }
    }
}

fn with_mode(case: &Case, mode: Mode, fault: Fault, max_events: usize) -> Case {
    let mut c = case.clone();
    c.mode = mode;
    c.fault = fault;
    c.max_events = max_events;
    c
}

fn budget_for(r: &RefRun, cap: u64) -> u64 {
    // Every backend charges at most one unit per executed branch; an optimised program
    // executes at most two branches per canonical bracket step. Factor 4 plus slack.
    r.canon_steps.saturating_mul(4).saturating_add(1000).min(cap.saturating_mul(4).saturating_add(1000))
}

pub fn evaluate(c: &Check) -> Verdict {
    let mut v = Verdict::default();
    match c.kind {
        Kind::Equiv => eval_equiv(c, &mut v),
        Kind::Budget => eval_budget(c, &mut v),
        Kind::IoFault => eval_iofault(c, &mut v),
        Kind::Diverge => eval_diverge(c, &mut v),
        Kind::Static => eval_static(c, &mut v),
        Kind::AllocFail => eval_allocfail(c, &mut v),
    }
    v
}

fn note_ref(v: &mut Verdict, r: &RefRun) {
    v.ref_steps += r.steps;
    v.nontrivial = r.loop_iters >= 1 && !r.events.is_empty();
    match r.status {
        Status::Halted => v.bump("ref_halted"),
        Status::StepCap => v.bump("ref_stepcap"),
        Status::Cycle { io_in_cycle: true } => v.bump("ref_cycle_io"),
        Status::Cycle { io_in_cycle: false } => v.bump("ref_cycle_silent"),
        Status::Unbalanced => v.bump("ref_unbalanced"),
    }
    if r.accelerated > 0 {
        v.bump("ref_used_acceleration");
    }
    let (mut n_in, mut n_eof, mut n_out) = (0u64, 0u64, 0u64);
    for e in &r.events {
        match e {
            Ev::In(Some(_)) => n_in += 1,
            Ev::In(None) => n_eof += 1,
            Ev::Out(_) => n_out += 1,
            _ => {}
        }
    }
    v.add("ref_live_input_requests", n_in);
    v.add("ref_reads_at_end_of_input", n_eof);
    v.add("ref_outputs", n_out);
    if n_eof > 0 && n_in > 0 {
        v.bump("ref_end_of_input_mid_run");
    }
}

/// Is the limited entry point part of what this property states? Only then are
/// results of `execute_limited` verdicts; otherwise the pre-flight is merely a
/// deterministic hang predictor for the `execute` call that follows.
fn limited_is_in_scope(prop: &str) -> bool {
    matches!(prop, "C05" | "C07")
}

/// Reach probe: which instruction-selector forms (opcode x operand classes) does the
/// JIT's bytecode for this case contain? R = register temporary, S = stack temporary
/// (index >= 11), M = tape cell, I = immediate fitting 32 bits, J = wider immediate.
fn jit_forms(c: &Check, v: &mut Verdict) {
    use hpbf::bc::{Instr, Loc};
    fn go<C: hpbf::CellType>(c: &Check, v: &mut Verdict) {
        let prog = match std::panic::catch_unwind(|| hpbf::ir::Program::<C>::parse(&c.case.program).map(|p| p.optimize(c.case.level))) {
            Ok(Ok(p)) => p,
            _ => return,
        };
        let bcp = match std::panic::catch_unwind(std::panic::AssertUnwindSafe(|| hpbf::bc::CodeGen::translate(&prog, 11, false))) {
            Ok(p) => p,
            Err(_) => return,
        };
        let cls = |l: &Loc<C>| -> char {
            match l {
                Loc::Tmp(t) if *t >= 11 => 'S',
                Loc::Tmp(_) => 'R',
                Loc::Mem(_) | Loc::MemZero(_) => 'M',
                Loc::Imm(i) => {
                    let x = i.into_i64();
                    if x >= i32::MIN as i64 && x <= i32::MAX as i64 {
                        'I'
                    } else {
                        'J'
                    }
                }
            }
        };
        let mut seen = std::collections::BTreeSet::new();
        for i in &bcp.insts {
            let f = match i {
                Instr::Add(d, a, b) => format!("add_{}{}{}", cls(d), cls(a), cls(b)),
                Instr::Sub(d, a, b) => format!("sub_{}{}{}", cls(d), cls(a), cls(b)),
                Instr::Mul(d, a, b) => format!("mul_{}{}{}", cls(d), cls(a), cls(b)),
                Instr::Copy(d, a) => format!("copy_{}{}", cls(d), cls(a)),
                _ => continue,
            };
            seen.insert(f);
        }
        for f in seen {
            v.bump(&format!("jitform_{}", f));
        }
        if bcp.temps > 11 {
            v.bump("jit_programs_with_stack_temporaries");
        }
    }
    match c.case.width {
        8 => go::<u8>(c, v),
        16 => go::<u16>(c, v),
        32 => go::<u32>(c, v),
        _ => go::<u64>(c, v),
    }
}

fn eval_equiv(c: &Check, v: &mut Verdict) {
    let r = reference(c, 0, false);
    note_ref(v, &r);
    if c.prop == "C03" && c.case.level == 2 {
        jit_forms(c, v);
    }
    if c.prop == "C01" && c.case.level > 3 {
        // state invariant: the optimiser's result for any level above 3 is the level-3 result
        fn ir<C: hpbf::CellType>(code: &str, level: u32) -> Option<String> {
            std::panic::catch_unwind(|| hpbf::ir::Program::<C>::parse(code).ok().map(|p| format!("{:?}", p.optimize(level)))).ok().flatten()
        }
        let (a, b) = match c.case.width {
            8 => (ir::<u8>(&c.case.program, c.case.level), ir::<u8>(&c.case.program, 3)),
            16 => (ir::<u16>(&c.case.program, c.case.level), ir::<u16>(&c.case.program, 3)),
            32 => (ir::<u32>(&c.case.program, c.case.level), ir::<u32>(&c.case.program, 3)),
            _ => (ir::<u64>(&c.case.program, c.case.level), ir::<u64>(&c.case.program, 3)),
        };
        v.bump("level_clamp_compared");
        if a.is_some() && b.is_some() && a != b {
            v.fail("level-above-3-differs", 0, format!("printed IR at level {} differs from the printed IR at level 3", c.case.level));
            return;
        }
    }
    let slack = r.events.len() + 64;
    let strict = limited_is_in_scope(&c.prop);
    match r.status {
        Status::Halted => {
            let within = r.canon_steps <= c.exec_cap;
            let budget = budget_for(&r, c.exec_cap);
            let pre = exec::execute(&with_mode(&c.case, Mode::Limited(budget), Fault::None, slack));
            v.executions += 1;
            let fin = if strict {
                let fin = match expect_clean(v, &pre, "limited pre-flight") {
                    Some(f) => f,
                    None => return,
                };
                if fin {
                    expect_equal(v, &pre.events, &r.events, "limited pre-flight (finished)");
                } else {
                    expect_prefix(v, &pre.events, &r.events, "limited pre-flight (interrupted)");
                    if within && v.class.is_none() {
                        v.fail(
                            "not-finished",
                            pre.events.len(),
                            format!(
                                "canonical run halts after {} steps but limited execution with budget {} reports interrupted",
                                r.canon_steps, budget
                            ),
                        );
                    }
                }
                if v.class.is_some() {
                    return;
                }
                fin
            } else {
                matches!(pre.result, ExecResult::Returned(true))
            };
            if !fin {
                v.bump("preflight_not_finished");
                if !within {
                    // too long to run unbounded and the property says nothing about limited mode
                    v.bump("no_verdict_too_long");
                    v.nontrivial = false;
                    return;
                }
            }
            let o = exec::execute(&with_mode(&c.case, Mode::Execute, Fault::None, slack));
            v.executions += 1;
            if expect_clean(v, &o, "execute").is_some() {
                expect_equal(v, &o.events, &r.events, "execute");
            }
            v.add("growth_blocks", o.blocks.len() as u64);
        }
        Status::StepCap if strict => {
            let pre = exec::execute(&with_mode(&c.case, Mode::Limited(c.exec_cap), Fault::None, slack));
            v.executions += 1;
            if expect_clean(v, &pre, "limited (reference unknown)").is_some() {
                expect_consistent(v, &pre.events, &r.events, "limited (reference hit its step cap)");
            }
        }
        _ => {
            v.nontrivial = false;
            v.bump("no_verdict_reference_not_halted");
        }
    }
}

fn eval_budget(c: &Check, v: &mut Verdict) {
    let r = reference(c, 4096, false);
    note_ref(v, &r);
    let b = match c.case.mode {
        Mode::Limited(b) => b,
        _ => 0,
    };
    let slack = r.events.len() + 64;
    let o = exec::execute(&with_mode(&c.case, Mode::Limited(b), Fault::None, slack));
    v.executions += 1;
    let fin = match expect_clean(v, &o, "execute_limited") {
        Some(f) => f,
        None => return,
    };
    v.bump(if fin { "finished" } else { "interrupted" });
    if o.budget_left > b {
        // a budget only ever shrinks; one that grows can never run out
        v.fail("budget-grew", 0, format!("execute_limited was given a budget of {} and left {} in the context", b, o.budget_left));
        return;
    }
    if o.overflow && r.status != Status::Halted {
        // The implementation ran past what the (truncated) reference knows; the event
        // cap then refused a byte, which is a fault this check is not about: only the
        // part the reference covers is judged, and the finished flag not at all.
        v.bump("ran_past_reference");
        let n = o.events.len().min(r.events.len());
        expect_prefix(v, &o.events[..n], &r.events, "prefix covered by the reference");
        return;
    }
    match r.status {
        Status::Halted => {
            if fin {
                expect_equal(v, &o.events, &r.events, "finished");
            } else {
                expect_prefix(v, &o.events, &r.events, "interrupted");
                if b >= budget_for(&r, u64::MAX / 8) && r.canon_steps <= c.exec_cap && v.class.is_none() {
                    v.fail(
                        "not-finished",
                        o.events.len(),
                        format!("canonical run halts after {} steps but budget {} reports interrupted", r.canon_steps, b),
                    );
                }
            }
        }
        Status::Cycle { io_in_cycle } => {
            if fin {
                v.fail("finished-but-divergent", o.events.len(), format!("canonical run diverges, budget {} reported finished", b));
            }
            if io_in_cycle {
                // the reference history is an arbitrary-length prefix of an infinite one
                expect_consistent(v, &o.events, &r.events, "divergent printing program");
            } else {
                expect_prefix(v, &o.events, &r.events, "divergent program");
            }
        }
        Status::StepCap => {
            if fin && o.events.len() < r.events.len() {
                v.fail("missing-events", o.events.len(), "finished with fewer events than the truncated reference".into());
            }
            expect_consistent(v, &o.events, &r.events, "reference unknown");
        }
        Status::Unbalanced => {}
    }
}

/// Expected history under a single fault, derived from the fault-free canonical one.
fn expected_under_fault(c: &Check, r: &RefRun) -> Option<Vec<Ev>> {
    let mut out = Vec::new();
    let (mut n_in, mut n_out) = (0usize, 0usize);
    for &e in &r.events {
        match (e, c.case.fault) {
            (Ev::In(_), Fault::InErr { at, .. }) if n_in == at => {
                out.push(Ev::InErr);
                return Some(out);
            }
            (Ev::In(_), Fault::NoReader) => return Some(out),
            (Ev::Out(b), Fault::OutRefuse { at, .. }) if n_out == at => {
                out.push(Ev::OutRefused(b));
                return Some(out);
            }
            _ => {}
        }
        match e {
            Ev::In(_) => n_in += 1,
            Ev::Out(_) => n_out += 1,
            _ => {}
        }
        out.push(e);
    }
    // the fault position lies beyond the canonical history: the fault never fires
    if r.status == Status::Halted {
        Some(out)
    } else {
        None
    }
}

fn eval_iofault(c: &Check, v: &mut Verdict) {
    let mute = c.case.fault == Fault::NoWriter;
    let r = reference(c, 4096, mute);
    note_ref(v, &r);
    v.bump(&format!("fault_{}", c.case.fault.name()));
    let terminating = matches!(r.status, Status::Halted | Status::Cycle { io_in_cycle: true });
    if !terminating {
        v.nontrivial = false;
        return;
    }
    let want = match expected_under_fault(c, &r) {
        Some(w) => w,
        None => {
            v.nontrivial = false;
            return;
        }
    };
    // an unbounded run must be affordable on the slowest backend up to the point where it stops
    let stop_index = match want.last() {
        Some(Ev::InErr) | Some(Ev::OutRefused(_)) => Some(want.len() - 1),
        _ if c.case.fault == Fault::NoReader && want.len() < r.events.len() => Some(want.len()),
        _ => None,
    };
    let steps_needed = match stop_index {
        Some(p) if p < r.canon_at_event.len() => r.canon_at_event[p],
        _ => r.canon_steps,
    };
    if steps_needed > c.exec_cap || (stop_index.is_none() && r.status != Status::Halted) {
        v.nontrivial = false;
        v.bump("no_verdict_too_long_or_unbounded");
        return;
    }
    let stops = want.len() < r.events.len() || matches!(want.last(), Some(Ev::InErr) | Some(Ev::OutRefused(_)));
    if !stops && r.status != Status::Halted {
        v.nontrivial = false;
        return;
    }
    if stops {
        v.bump("fault_inside_history");
    }
    let o = exec::execute(&with_mode(&c.case, Mode::Execute, c.case.fault, want.len() + 64));
    v.executions += 1;
    if o.fault_fired {
        v.bump(&format!("fired_{}", c.case.fault.name()));
    }
    if expect_clean(v, &o, "execute under fault").is_some() {
        if let Some(i) = first_diff(&o.events, &want) {
            v.fail("diff", i, format!("under {:?}: {}", c.case.fault, describe(&o.events, &want, i)));
        } else if o.events.len() > want.len() {
            v.fail(
                "event-after-fault",
                want.len(),
                format!("under {:?}: {}", c.case.fault, describe(&o.events, &want, want.len())),
            );
        } else if o.events.len() < want.len() {
            v.fail(
                "missing-events",
                o.events.len(),
                format!("under {:?}: {}", c.case.fault, describe(&o.events, &want, o.events.len())),
            );
        }
    }
}

fn eval_diverge(c: &Check, v: &mut Verdict) {
    let r = reference(c, 6000, false);
    note_ref(v, &r);
    match r.status {
        Status::Cycle { io_in_cycle } => {
            v.nontrivial = true;
            // budget ladder: never "finished", history a prefix of the canonical one
            let period = r.canon_steps;
            let big = period.saturating_mul(16).saturating_add(10_000).min(c.exec_cap.saturating_mul(16));
            let mut ladder: Vec<u64> = (0..=8).collect();
            ladder.extend_from_slice(&[13, 64, 1000, 100_000.min(big), big]);
            ladder.dedup();
            let full = &r.events[..];
            for &b in &ladder {
                let o = exec::execute(&with_mode(&c.case, Mode::Limited(b), Fault::None, full.len()));
                v.executions += 1;
                v.bump("ladder_rungs");
                if o.overflow {
                    v.bump("ran_past_reference");
                    let n = o.events.len().min(full.len());
                    expect_prefix(v, &o.events[..n], full, &format!("budget {} (prefix covered by the reference)", b));
                    continue;
                }
                match expect_clean(v, &o, "limited on divergent program") {
                    Some(true) => {
                        v.fail(
                            "finished-but-divergent",
                            o.events.len(),
                            format!("canonical run provably repeats a state (period {} steps) but budget {} reported finished", r.cycle_len_steps, b),
                        );
                    }
                    Some(false) => {
                        if io_in_cycle {
                            expect_consistent(v, &o.events, full, &format!("budget {}", b));
                        } else {
                            expect_prefix(v, &o.events, full, &format!("budget {}", b));
                        }
                        if b == big && !io_in_cycle && v.class.is_none() && o.events.len() < full.len() && period <= c.exec_cap {
                            v.fail(
                                "missing-events",
                                o.events.len(),
                                format!("budget {} (16x the steps to close the cycle) did not reach all output before divergence: {}", b, describe(&o.events, full, o.events.len())),
                            );
                        }
                    }
                    None => {}
                }
                if v.class.is_some() {
                    return;
                }
            }
            if !io_in_cycle && crate::rng::fnv(c.case.program.as_bytes()) % (if c.exec_cap > 1_000_000 { 24 } else { 160 }) == 0 {
                // Observation of the unbounded entry point itself, for a sample of silently
                // divergent programs: run `execute` in a forked child for a short while.
                // Real time is used only in the direction that cannot raise a false alarm:
                // the child *returning* is the violation; having to kill it is expected.
                use crate::isolate::{run_forked, ChildEnd};
                let case = with_mode(&c.case, Mode::Execute, Fault::None, full.len() + 64);
                let end = run_forked(
                    || {
                        let o = exec::execute(&case);
                        format!("{}", o.events.len())
                    },
                    std::time::Duration::from_millis(150),
                );
                v.executions += 1;
                match end {
                    ChildEnd::Hang => v.bump("unbounded_run_still_running_when_killed"),
                    ChildEnd::Exited(p) => {
                        v.fail(
                            "returned-but-divergent",
                            0,
                            format!("canonical run provably repeats a state (silent divergence) but `execute` returned after {} events", p),
                        );
                        return;
                    }
                    ChildEnd::Died { sig, status } => {
                        v.fail(
                            &crate::parent::crash_class(sig.as_deref(), Some(&status.to_string())),
                            0,
                            format!("`execute` of a silently divergent program died: {:?}", sig),
                        );
                        return;
                    }
                }
            }
            if io_in_cycle {
                // printing divergence: close the sink at output N
                let outs: Vec<usize> = r.events.iter().enumerate().filter(|(_, e)| matches!(e, Ev::Out(_))).map(|(i, _)| i).collect();
                if outs.len() >= 2 {
                    let picks = [0usize, outs.len() / 2, outs.len() - 1];
                    for &k in &picks {
                        if r.canon_at_event[outs[k]] > c.exec_cap {
                            // an unbounded run up to this output would take too long on the slowest backend
                            v.bump("sink_closing_skipped_too_long");
                            continue;
                        }
                        let mut cc = c.clone();
                        cc.case.fault = Fault::OutRefuse { at: k, kind: 0 };
                        let want = expected_under_fault(&cc, &r).unwrap_or_default();
                        let o = exec::execute(&with_mode(&c.case, Mode::Execute, cc.case.fault, want.len() + 64));
                        v.executions += 1;
                        v.bump("sink_closings");
                        if expect_clean(v, &o, "execute with closing sink").is_some() {
                            expect_equal(v, &o.events, &want, &format!("sink closes at output {}", k));
                        }
                        if v.class.is_some() {
                            return;
                        }
                    }
                }
            }
        }
        _ => {
            v.nontrivial = false;
            v.bump("not_divergent_skipped");
        }
    }
}

fn eval_static(c: &Check, v: &mut Verdict) {
    let r = reference(c, 0, false);
    note_ref(v, &r);
    if r.status != Status::Halted || r.canon_steps > c.exec_cap {
        v.nontrivial = false;
        return;
    }
    let o = exec::execute(&with_mode(&c.case, Mode::Unsafe, Fault::None, r.events.len() + 64));
    v.executions += 1;
    if expect_clean(v, &o, "execute_unsafe").is_some() {
        expect_equal(v, &o.events, &r.events, "execute_unsafe");
        if o.pregrown_survived == Some(false) {
            v.fail(
                "region-replaced",
                0,
                format!(
                    "the pre-allocated tape block {:x?} was freed/replaced during an unchecked run; blocks (addr,size,freed) in request order: {:x?}; reference excursion [{}, {}]",
                    o.pregrown_tape, o.blocks, r.lo, r.hi
                ),
            );
        }
    }
}

fn eval_allocfail(c: &Check, v: &mut Verdict) {
    use crate::isolate::{run_forked, ChildEnd};
    let far = c.case.far_move.is_some();
    let case = if far {
        // the program starts so far from its tape that its first write is a request nobody can
        // serve: no reference run applies, the only acceptable ends are abort and panic
        with_mode(&c.case, c.case.mode, Fault::None, 64)
    } else {
        let r = reference(c, 0, false);
        note_ref(v, &r);
        if r.status != Status::Halted || r.canon_steps > c.exec_cap {
            v.nontrivial = false;
            return;
        }
        with_mode(&c.case, c.case.mode, Fault::None, r.events.len() + 64)
    };
    crate::isolate::clear_panic_caught();
    let end = run_forked(
        || {
            let o = exec::execute(&case);
            let res = match &o.result {
                ExecResult::Returned(_) => "returned",
                ExecResult::Panic(_) | ExecResult::CreatePanic(_) => "panic",
                _ => "error",
            };
            // (after a caught panic the context has been dropped: what the allocator saw then counts)
            format!("{} {} {} {} {}", res, o.events.len(), o.alloc.failed, o.alloc.unknown_free, o.alloc.canary_hits + o.alloc.size_mismatch)
        },
        std::time::Duration::from_secs(10),
    );
    v.executions += 1;
    v.nontrivial = true;
    match end {
        ChildEnd::Exited(p) => {
            let f: Vec<&str> = p.split_whitespace().collect();
            let failed: u64 = f.get(2).and_then(|x| x.parse().ok()).unwrap_or(0);
            let unknown_free: u64 = f.get(3).and_then(|x| x.parse().ok()).unwrap_or(0);
            let damaged: u64 = f.get(4).and_then(|x| x.parse().ok()).unwrap_or(0);
            match f.first().copied() {
                Some("panic") if unknown_free > 0 => v.fail(
                    "double-free-after-panic",
                    0,
                    "the growth request panicked; when the context was dropped afterwards a block was freed that the allocator no longer (or never) knew".into(),
                ),
                Some("panic") if damaged > 0 => v.fail("canary", 0, "the growth request panicked; bytes next to a heap block were overwritten or a block was freed with a wrong layout".into()),
                Some("panic") => v.bump("ended_by_panic"),
                Some("returned") if far => {
                    // an optimised program need not touch the tape at all (`+.` prints a constant)
                    v.bump("far_start_program_never_grew_the_tape");
                    v.nontrivial = false;
                }
                Some("returned") if failed == 0 => {
                    v.bump("fault_not_reached");
                    v.nontrivial = false;
                }
                Some("returned") => {
                    v.bump("fired_alloc_failure");
                    v.fail(
                        "continued-after-alloc-failure",
                        0,
                        format!("allocation request {:?} returned null and execution carried on to a normal return ({} events)", c.case.alloc.fail_at, f.get(1).unwrap_or(&"?")),
                    );
                }
                _ => v.fail("error", 0, format!("child reported {:?}", p)),
            }
        }
        ChildEnd::Died { sig, status } => {
            v.bump("fired_alloc_failure");
            let name = sig.as_deref().and_then(|s| s.split_whitespace().next()).unwrap_or("");
            if crate::isolate::panic_was_caught() {
                v.fail(
                    "died-after-caught-panic",
                    0,
                    format!("the growth request panicked and the panic was caught; the process then died by {:?} while the context was used or dropped (dropping requests no memory: a double free or a use after free)", sig),
                );
            } else if name == "ABRT" {
                v.bump("ended_by_abort");
            } else {
                let class = crate::parent::crash_class(sig.as_deref(), Some(&status.to_string()));
                v.fail(
                    &class,
                    0,
                    format!("allocation request {:?} returned null and the process died by {:?} instead of the allocation-failure abort", c.case.alloc.fail_at, sig),
                );
            }
        }
        ChildEnd::Hang => v.fail("hang", 0, "no result within 10 s after an allocation failure".into()),
    }
}
