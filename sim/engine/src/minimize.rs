//! Shrinking of failing checks (DESIGN.md §3.7): bracket-aware delta debugging on the
//! program, then the peer script, the fault, the budget and the configuration.

use crate::case::{AllocPlan, Mode};
use crate::check::Check;
use crate::gen::balanced;
use crate::peer::Fault;

pub fn prog_size(c: &Check) -> usize {
    let p = &c.case;
    let mut s = p.program.len() * 10_000;
    s += p.peer.script.len() * 300;
    s += p.peer.script.iter().map(|&b| (b as usize).min(9)).sum::<usize>();
    s += (p.peer.react_n as usize + p.peer.react_l as usize).min(8) * 10;
    s += if p.peer.mask != 0xff { 5 } else { 0 };
    s += if p.pregrow.is_some() { 50 } else { 0 };
    if let Some((a, b)) = p.pregrow {
        s += ((a + b) as usize).min(40);
    }
    s += if p.alloc.guard { 100 } else { 0 };
    s += if p.alloc.reuse { 20 } else { 0 };
    s += if p.junk != 1 { 1 } else { 0 };
    s += if p.hash_seed != 0 { 1 } else { 0 };
    s += p.level.min(8) as usize * 2;
    s += match p.width {
        8 => 0,
        16 => 3,
        32 => 6,
        _ => 9,
    };
    s += match p.fault {
        Fault::InErr { at, .. } | Fault::OutRefuse { at, .. } => at.min(200),
        _ => 0,
    };
    s += match p.mode {
        Mode::Limited(b) => (64 - b.leading_zeros()) as usize * 4 + (b % 16) as usize / 4,
        _ => 0,
    };
    s
}

fn with_program(c: &Check, p: String) -> Check {
    let mut n = c.clone();
    n.case.program = p;
    n
}

pub fn shrink_prog(c: &Check) -> Vec<Check> {
    let mut out = Vec::new();
    let prog: Vec<char> = c.case.program.chars().collect();
    // 0. drop all comment characters at once
    let only_cmds: String = prog.iter().filter(|ch| "+-<>,.[]".contains(**ch)).collect();
    if only_cmds.len() < c.case.program.len() {
        out.push(with_program(c, only_cmds));
    }
    // 1. cancel adjacent inverse commands (semantics-preserving)
    {
        let mut stack: Vec<char> = Vec::new();
        for &ch in prog.iter() {
            let inv = match ch {
                '<' => '>',
                '>' => '<',
                '+' => '-',
                '-' => '+',
                _ => '\0',
            };
            if inv != '\0' && stack.last() == Some(&inv) {
                stack.pop();
            } else {
                stack.push(ch);
            }
        }
        if stack.len() < prog.len() {
            out.push(with_program(c, stack.into_iter().collect()));
        }
    }
    // 2. unwrap loops (remove a matching bracket pair, keep the body)
    let mut stack = Vec::new();
    for (i, &ch) in prog.iter().enumerate() {
        if ch == '[' {
            stack.push(i);
        } else if ch == ']' {
            if let Some(j) = stack.pop() {
                let cand: String = prog
                    .iter()
                    .enumerate()
                    .filter(|(k, _)| *k != i && *k != j)
                    .map(|(_, c)| *c)
                    .collect();
                out.push(with_program(c, cand));
                // remove the whole loop
                let cand: String = prog[..j].iter().chain(prog[i + 1..].iter()).collect();
                out.push(with_program(c, cand));
            }
        }
    }
    // 3. peer
    let p = &c.case.peer;
    if !p.script.is_empty() {
        let mut n1 = c.clone();
        n1.case.peer.script.clear();
        out.push(n1);
        let mut n2 = c.clone();
        n2.case.peer.script.truncate(p.script.len() / 2);
        out.push(n2);
        let mut n3 = c.clone();
        n3.case.peer.script.pop();
        out.push(n3);
        for i in 0..p.script.len() {
            if p.script[i] > 1 {
                for v in [0u8, 1, p.script[i] / 2] {
                    let mut m = c.clone();
                    m.case.peer.script[i] = v;
                    out.push(m);
                }
            } else if p.script[i] == 1 {
                let mut m = c.clone();
                m.case.peer.script[i] = 0;
                out.push(m);
            }
            let mut m = c.clone();
            m.case.peer.script.remove(i);
            out.push(m);
        }
    }
    if p.react_n != 0 || p.react_l != 0 {
        let mut m = c.clone();
        m.case.peer.react_n = 0;
        m.case.peer.react_l = 0;
        out.push(m);
    }
    if p.mask != 0xff {
        let mut m = c.clone();
        m.case.peer.mask = 0xff;
        out.push(m);
    }
    // 4. fault earlier
    match c.case.fault {
        Fault::InErr { at, kind } if at > 0 => {
            for a in [0, at / 2, at - 1] {
                let mut m = c.clone();
                m.case.fault = Fault::InErr { at: a, kind };
                out.push(m);
            }
        }
        Fault::OutRefuse { at, kind } if at > 0 => {
            for a in [0, at / 2, at - 1] {
                let mut m = c.clone();
                m.case.fault = Fault::OutRefuse { at: a, kind };
                out.push(m);
            }
        }
        _ => {}
    }
    // 5. budget smaller
    if let Mode::Limited(b) = c.case.mode {
        for nb in [0, b / 2, b.saturating_sub(1), b & !15] {
            if nb < b {
                let mut m = c.clone();
                m.case.mode = Mode::Limited(nb);
                out.push(m);
            }
        }
    }
    // 6. configuration
    if c.case.pregrow.is_some() && c.kind != crate::check::Kind::Static {
        let mut m = c.clone();
        m.case.pregrow = None;
        out.push(m);
        let mut m = c.clone();
        m.case.pregrow = c.case.pregrow.map(|(a, b)| (a / 2, (b / 2).max(1)));
        out.push(m);
    }
    if c.case.alloc.guard && c.kind != crate::check::Kind::Static {
        let mut m = c.clone();
        m.case.alloc = AllocPlan::OFF;
        out.push(m);
    }
    if c.case.alloc.reuse {
        let mut m = c.clone();
        m.case.alloc.reuse = false;
        out.push(m);
    }
    if c.case.junk != 1 {
        let mut m = c.clone();
        m.case.junk = 1;
        out.push(m);
    }
    if c.case.hash_seed != 0 {
        let mut m = c.clone();
        m.case.hash_seed = 0;
        out.push(m);
    }
    if c.case.level > 0 {
        let mut m = c.clone();
        m.case.level = c.case.level.min(4) - 1;
        out.push(m);
    }
    if c.case.width != 8 {
        let mut m = c.clone();
        m.case.width = 8;
        out.push(m);
    }
    out
}
