//! Workload: Brainfuck program generators (families F1–F7 of DESIGN.md §3.5).
//! Every choice is drawn from the run's `Rng`.

use crate::rng::Rng;

#[derive(Clone, Copy, Debug, PartialEq, Eq, PartialOrd, Ord)]
pub enum Family {
    Raw,
    Corpus,
    Structured,
    Pressure,
    Roamer,
    Divergent,
    IoPressure,
    Brackets,
    Idioms,
    Long,
    Explosive,
    Nested,
}

impl Family {
    pub fn name(&self) -> &'static str {
        match self {
            Family::Raw => "F1-raw",
            Family::Corpus => "F2-corpus",
            Family::Structured => "F3-structured",
            Family::Pressure => "F4-pressure",
            Family::Roamer => "F5-roamer",
            Family::Divergent => "F6-divergent",
            Family::IoPressure => "F8-io-pressure",
            Family::Brackets => "F9-bracket-dense",
            Family::Idioms => "F10-classic-idioms",
            Family::Long => "F11-long-straight-line",
            Family::Explosive => "F12-expression-growth",
            Family::Nested => "F13-deep-nesting",
        }
    }
}

/// Tiny assembler that tracks the pointer position so macros can address named cells.
pub struct Asm {
    pub out: String,
    pub ptr: i64,
}

impl Asm {
    pub fn new() -> Asm {
        Asm { out: String::new(), ptr: 0 }
    }

    pub fn go(&mut self, cell: i64) {
        while self.ptr < cell {
            self.out.push('>');
            self.ptr += 1;
        }
        while self.ptr > cell {
            self.out.push('<');
            self.ptr -= 1;
        }
    }

    pub fn raw(&mut self, s: &str) {
        self.out.push_str(s);
    }

    pub fn add(&mut self, cell: i64, n: i64) {
        self.go(cell);
        for _ in 0..n.abs() {
            self.out.push(if n > 0 { '+' } else { '-' });
        }
    }

    pub fn clear(&mut self, cell: i64) {
        self.go(cell);
        self.out.push_str("[-]");
    }

    pub fn set(&mut self, cell: i64, n: i64) {
        self.clear(cell);
        self.add(cell, n);
    }

    pub fn input(&mut self, cell: i64) {
        self.go(cell);
        self.out.push(',');
    }

    pub fn output(&mut self, cell: i64) {
        self.go(cell);
        self.out.push('.');
    }

    /// `while cell != 0 { body }`; the body must leave the pointer wherever it likes,
    /// we return to `cell` before the closing bracket.
    pub fn while_(&mut self, cell: i64, body: impl FnOnce(&mut Asm)) {
        self.go(cell);
        self.out.push('[');
        body(self);
        self.go(cell);
        self.out.push(']');
    }
}

// ---------------------------------------------------------------------------------
// F1: raw

pub fn raw(rng: &mut Rng) -> String {
    let len = match rng.below(4) {
        0 => rng.urange(4, 16),
        1 | 2 => rng.urange(12, 48),
        _ => rng.urange(32, 96),
    };
    // per-run weights for + - < > , . [ ]
    let mut w = [0u32; 8];
    for x in w.iter_mut() {
        *x = 1 + rng.below(8) as u32;
    }
    if rng.coin() {
        w[4] = w[4].min(2); // few inputs
    }
    let chars = b"+-<>,.[]";
    let mut s = String::new();
    let mut depth = 0usize;
    let mut i = 0;
    while i < len {
        let c = chars[rng.weighted(&w)];
        match c {
            b'[' => {
                if depth < 8 {
                    depth += 1;
                    s.push('[');
                }
            }
            b']' => {
                if depth > 0 {
                    depth -= 1;
                    s.push(']');
                }
            }
            _ => s.push(c as char),
        }
        i += 1;
    }
    for _ in 0..depth {
        s.push(']');
    }
    s
}

// ---------------------------------------------------------------------------------
// F2: corpus mutation

pub const FALLBACK_CORPUS: &[&str] = &[
    "+[.,>+[.>[.]]+[.[-<>.,]]]",
    ",[<]+[+[+[-.[-]]]].",
    ",>,>-<<[>>+<<-]>[<+>-]>[<+>-]<.",
    ",[-<+>],<+.",
    "-<<<+>>>[<<<<<<[>>+<<-]>>>[<<<+>>>-]<[>+<-]<.>>]",
    "[[---]+][-]+.",
    "...,,[[>,.<]]",
    "-[-.-<-<<>-><.-<<-.<>->-.->>.+]",
    ",>,>,>,[[-]<<[->>+<<]<[->+>>+<<<]>>[-<<+>>]>[-<+>]>].<.<.<.<.<.<.<.<.<.<.<.",
    ">++++++++[-<+++++++++>]<.>>+>-[+]++>++>+++[>[->+++<<+++>]<<]>-----.>->+++..+++.>-.<<+[>[+>+]>>]<--------------.>>.+++.------.--------.>+.>+.",
    "++++[>++++++<-]>[>+++++>+++++++<<-]>>++++<[[>[[>>+<<-]<]>>>-]>-[>+>+<<-]>]+++++[>+++++++<<++>-]>.<<.",
];

/// Pull the regression programs out of /repo/src/exec/testdef.rs (string literals made
/// of Brainfuck characters and whitespace). Falls back to an embedded list.
pub fn load_corpus() -> Vec<String> {
    let mut out = Vec::new();
    if let Ok(text) = std::fs::read_to_string("/repo/src/exec/testdef.rs") {
        let b = text.as_bytes();
        let mut i = 0;
        while i < b.len() {
            if b[i] == b'"' {
                let mut j = i + 1;
                let mut s = String::new();
                let mut ok = true;
                while j < b.len() && b[j] != b'"' {
                    if b[j] == b'\\' {
                        ok = false;
                        j += 1;
                    } else {
                        s.push(b[j] as char);
                    }
                    j += 1;
                }
                if ok {
                    let cmds = s.bytes().filter(|c| b"+-<>,.[]".contains(c)).count();
                    let other = s.bytes().filter(|c| !b"+-<>,.[] \n\t".contains(c)).count();
                    if cmds >= 3 && other == 0 {
                        let clean: String = s.chars().filter(|c| !c.is_whitespace()).collect();
                        if balanced(&clean) && clean.len() < 1500 {
                            out.push(clean);
                        }
                    }
                }
                i = j + 1;
            } else {
                i += 1;
            }
        }
    }
    if out.len() < 10 {
        out = FALLBACK_CORPUS.iter().map(|s| s.to_string()).collect();
    }
    out.sort();
    out.dedup();
    out
}

pub fn balanced(s: &str) -> bool {
    let mut d = 0i64;
    for c in s.bytes() {
        if c == b'[' {
            d += 1;
        } else if c == b']' {
            d -= 1;
            if d < 0 {
                return false;
            }
        }
    }
    d == 0
}

/// Fix up an arbitrary string into a balanced program.
pub fn rebalance(s: &str) -> String {
    let mut out = String::new();
    let mut d = 0;
    for c in s.chars() {
        if c == '[' {
            d += 1;
            out.push(c);
        } else if c == ']' {
            if d > 0 {
                d -= 1;
                out.push(c);
            }
        } else {
            out.push(c);
        }
    }
    for _ in 0..d {
        out.push(']');
    }
    out
}

pub fn corpus_mutation(rng: &mut Rng, corpus: &[String]) -> String {
    let a = rng.pick(corpus).clone();
    let mut s: Vec<u8> = a.into_bytes();
    let n_mut = rng.urange(0, 4);
    for _ in 0..n_mut {
        if s.is_empty() {
            break;
        }
        match rng.below(6) {
            0 => {
                // splice a slice of another program
                let b = rng.pick(corpus).as_bytes();
                let from = rng.urange(0, b.len().saturating_sub(1));
                let to = (from + rng.urange(1, 12)).min(b.len());
                let at = rng.urange(0, s.len());
                for (k, &c) in b[from..to].iter().enumerate() {
                    s.insert(at + k, c);
                }
            }
            1 => {
                let at = rng.urange(0, s.len() - 1);
                s.remove(at);
            }
            2 => {
                let at = rng.urange(0, s.len() - 1);
                s[at] = *rng.pick(b"+-<>,.");
            }
            3 => {
                let at = rng.urange(0, s.len());
                s.insert(at, *rng.pick(b"+-<>,.+-"));
            }
            4 => {
                // duplicate a slice
                let from = rng.urange(0, s.len() - 1);
                let to = (from + rng.urange(1, 10)).min(s.len());
                let slice: Vec<u8> = s[from..to].to_vec();
                let at = rng.urange(0, s.len());
                for (k, &c) in slice.iter().enumerate() {
                    s.insert(at + k, c);
                }
            }
            _ => {
                // prepend inputs so that loops have something to chew on
                s.insert(0, b',');
            }
        }
    }
    if s.len() > 1500 {
        s.truncate(1500);
    }
    rebalance(&String::from_utf8_lossy(&s))
}

// ---------------------------------------------------------------------------------
// F3: structured macro programs over k named cells

struct StructCfg {
    k: i64,       // named cells 0..k
    scratch: i64, // scratch cells k..k+scratch
    max_depth: u32,
    even_steps: bool,
}

fn small_const(rng: &mut Rng) -> i64 {
    match rng.below(8) {
        0 => 0,
        1 | 2 => 1,
        3 => 2,
        4 => 3,
        5 => rng.range(4, 9),
        6 => -1,
        _ => -(rng.range(1, 3)),
    }
}

fn stmt(rng: &mut Rng, a: &mut Asm, cfg: &StructCfg, depth: u32, budget: &mut i32) {
    if *budget <= 0 {
        return;
    }
    *budget -= 1;
    let k = cfg.k;
    let cell = |rng: &mut Rng| rng.range(0, k - 1);
    let two = |rng: &mut Rng| {
        let x = rng.range(0, k - 1);
        let mut y = rng.range(0, k - 2);
        if y >= x {
            y += 1;
        }
        (x, y)
    };
    let choice = match rng.below(if depth < cfg.max_depth { 27 } else { 17 }) {
        14 if depth >= cfg.max_depth => 19,
        15 if depth >= cfg.max_depth => 22,
        16 if depth >= cfg.max_depth => 23,
        20 | 21 => {
            if rng.coin() {
                19
            } else {
                20
            }
        }
        24 => 22,
        25 => 23,
        26 => 24,
        x => x,
    };
    let choice = if rng.chance(1, 30) {
        24
    } else if rng.chance(1, 12) {
        25
    } else if rng.chance(1, 25) {
        26
    } else if rng.chance(1, 14) {
        27
    } else if rng.chance(1, 16) {
        28
    } else if rng.chance(1, 14) {
        29
    } else if rng.chance(1, 14) {
        30
    } else if rng.chance(1, 16) {
        31
    } else if rng.chance(1, 14) {
        32
    } else if rng.chance(1, 16) {
        33
    } else if rng.chance(1, 16) {
        34
    } else {
        choice
    };
    match choice {
        0 => {
            let c = cell(rng);
            a.add(c, small_const(rng));
        }
        1 => {
            let c = cell(rng);
            let v = rng.range(0, 6);
            a.set(c, v);
        }
        2 => {
            let c = cell(rng);
            a.input(c);
        }
        3 => {
            let c = cell(rng);
            a.output(c);
        }
        4 => {
            let c = cell(rng);
            a.clear(c);
        }
        5 | 6 => {
            // b += coef * a ; a consumed with step s
            let (x, y) = two(rng);
            let coef = small_const(rng);
            let step = if cfg.even_steps && rng.chance(1, 6) {
                *rng.pick(&[2i64, -2, 4])
            } else {
                *rng.pick(&[1i64, 1, 1, -1, 3, -3])
            };
            a.while_(x, |a| {
                a.add(y, coef);
                a.add(x, -step);
            });
        }
        7 => {
            // move to two targets
            let (x, y) = two(rng);
            let z = cell(rng);
            let (c1, c2) = (small_const(rng), small_const(rng));
            a.while_(x, |a| {
                a.add(y, c1);
                if z != x {
                    a.add(z, c2);
                }
                a.add(x, -1);
            });
        }
        8 => {
            // copy x -> y via scratch t (t assumed zero, restored to zero)
            let (x, y) = two(rng);
            let t = k + rng.range(0, cfg.scratch - 1);
            a.while_(x, |a| {
                a.add(y, 1);
                a.add(t, 1);
                a.add(x, -1);
            });
            a.while_(t, |a| {
                a.add(x, 1);
                a.add(t, -1);
            });
        }
        9 => {
            // x += y ; y = x  (the doubling shape)
            let (x, y) = two(rng);
            let t = k + rng.range(0, cfg.scratch - 1);
            a.while_(y, |a| {
                a.add(x, 1);
                a.add(y, -1);
            });
            a.while_(x, |a| {
                a.add(y, 1);
                a.add(t, 1);
                a.add(x, -1);
            });
            a.while_(t, |a| {
                a.add(x, 1);
                a.add(t, -1);
            });
        }
        10 => {
            // triangular: while n { acc += i; i += c; n -= 1 }
            let (n, acc) = two(rng);
            let i = cell(rng);
            let t = k + rng.range(0, cfg.scratch - 1);
            let c = small_const(rng);
            a.while_(n, |a| {
                if i != n && i != acc {
                    // acc += i (non-destructive via t)
                    a.while_(i, |a| {
                        a.add(acc, 1);
                        a.add(t, 1);
                        a.add(i, -1);
                    });
                    a.while_(t, |a| {
                        a.add(i, 1);
                        a.add(t, -1);
                    });
                    a.add(i, c);
                } else {
                    a.add(acc, c);
                }
                a.add(n, -1);
            });
        }
        11 => {
            // geometric: while n { x = x * m ; n -= 1 }
            let (n, x) = two(rng);
            let t = k + rng.range(0, cfg.scratch - 1);
            let m = rng.range(0, 3);
            a.while_(n, |a| {
                a.while_(x, |a| {
                    a.add(t, m);
                    a.add(x, -1);
                });
                a.while_(t, |a| {
                    a.add(x, 1);
                    a.add(t, -1);
                });
                a.add(n, -1);
            });
        }
        12 => {
            // multiply: z += x * y (x consumed, y preserved)
            let (x, y) = two(rng);
            let z = cell(rng);
            let t = k + rng.range(0, cfg.scratch - 1);
            if z != x && z != y {
                a.while_(x, |a| {
                    a.while_(y, |a| {
                        a.add(z, 1);
                        a.add(t, 1);
                        a.add(y, -1);
                    });
                    a.while_(t, |a| {
                        a.add(y, 1);
                        a.add(t, -1);
                    });
                    a.add(x, -1);
                });
            }
        }
        13 => {
            // unbalanced-looking but balanced pointer games: loop over an offset view
            let c = cell(rng);
            a.go(c);
            let body = *rng.pick(&["[->+<]", "[-<+>]", "[->+>+<<]", "[>+<-]", "[->++<]", "[->-<]", "[-]", "[+]"]);
            a.raw(body);
        }
        14 | 15 => {
            // counted loop with a nested body
            let c = cell(rng);
            let n = rng.urange(1, 3);
            a.while_(c, |a| {
                for _ in 0..n {
                    stmt(rng, a, cfg, depth + 1, budget);
                }
                a.add(c, -1);
            });
        }
        16 | 17 => {
            // if (c) { body }  -- clears c
            let c = cell(rng);
            let n = rng.urange(1, 3);
            a.while_(c, |a| {
                for _ in 0..n {
                    stmt(rng, a, cfg, depth + 1, budget);
                }
                a.clear(c);
            });
        }
        18 => {
            // while (c) { body }  -- body decides
            let c = cell(rng);
            let n = rng.urange(1, 3);
            a.while_(c, |a| {
                for _ in 0..n {
                    stmt(rng, a, cfg, depth + 1, budget);
                }
                if rng.chance(3, 4) {
                    a.add(c, -1);
                }
            });
        }
        19 => {
            // identity test: y = c - x ; y += x ; y -= c  must be zero in all bits; print a
            // marker if it is not (exposes corruption above the low byte on wide cells)
            let (x, y) = two(rng);
            let t = k + rng.range(0, cfg.scratch - 1);
            let cst = *rng.pick(&[-1i64, -2, -3, 1, 2, 5]);
            a.clear(y);
            a.add(y, cst);
            // y -= x (non-destructive on x)
            a.while_(x, |a| {
                a.add(y, -1);
                a.add(t, 1);
                a.add(x, -1);
            });
            a.while_(t, |a| {
                a.add(x, 1);
                a.add(t, -1);
            });
            // y += x
            a.while_(x, |a| {
                a.add(y, 1);
                a.add(t, 1);
                a.add(x, -1);
            });
            a.while_(t, |a| {
                a.add(x, 1);
                a.add(t, -1);
            });
            a.add(y, -cst);
            a.while_(y, |a| {
                a.add(t, 7);
                a.output(t);
                a.clear(t);
                a.clear(y);
            });
        }
        22 => {
            // y = k*x for a run-time x and a constant k on an encoding boundary (imm8/imm32, powers
            // of two), then count y down printing it: the trip count exposes every bit of y.
            // (An algebraic zero-test does not work here: the optimiser proves k*x - k1*x - k2*x = 0.)
            let (x, y) = two(rng);
            let t = k + rng.range(0, cfg.scratch - 1);
            let kk = *rng.pick(&[2i64, 3, 7, 8, 15, 16, 17, 31, 32, 33, 63, 64, 65, 127, 128, 129, -127, -128, -129, 255, 256, 257, 300, -256]);
            if rng.chance(2, 3) {
                a.input(x);
            }
            a.clear(y);
            a.while_(x, |a| {
                a.add(y, kk);
                a.add(t, 1);
                a.add(x, -1);
            });
            a.while_(t, |a| {
                a.add(x, 1);
                a.add(t, -1);
            });
            if kk < 0 {
                // make it positive again so that the countdown is short when all is well
                a.while_(x, |a| {
                    a.add(y, -2 * kk);
                    a.add(t, 1);
                    a.add(x, -1);
                });
                a.while_(t, |a| {
                    a.add(x, 1);
                    a.add(t, -1);
                });
            }
            a.while_(y, |a| {
                a.output(y);
                a.add(y, -1);
            });
        }
        24 => {
            // power-of-two probe: build 2^k by repeated multiplication by 4 (or 2), then print
            // whether it is non-zero. Catches truncated compares / moves on wide cells.
            let p0 = k + cfg.scratch + 1;
            let p1 = p0 + 1;
            let kk = *rng.pick(&[7u32, 8, 9, 15, 16, 17, 24, 31, 32, 33, 40, 48, 63, 64]);
            a.clear(p0);
            a.clear(p1);
            a.add(p0, 1);
            for _ in 0..kk / 2 {
                a.while_(p0, |a| {
                    a.add(p1, 4);
                    a.add(p0, -1);
                });
                a.while_(p1, |a| {
                    a.add(p0, 1);
                    a.add(p1, -1);
                });
            }
            if kk % 2 == 1 {
                a.while_(p0, |a| {
                    a.add(p1, 2);
                    a.add(p0, -1);
                });
                a.while_(p1, |a| {
                    a.add(p0, 1);
                    a.add(p1, -1);
                });
            }
            // flag = (p0 != 0)
            a.while_(p0, |a| {
                a.add(p1, 1);
                a.clear(p0);
            });
            a.output(p1);
            a.clear(p1);
        }
        25 => {
            // the source of a value is overwritten (input, constant, another move) between the
            // definition of the value and its use
            let (x, y) = two(rng);
            let t = k + rng.range(0, cfg.scratch - 1);
            let mut coef = *rng.pick(&[1i64, 1, 2, -1, 3]);
            if rng.coin() {
                // the destination is known to be empty: the new value is a plain load of x
                a.clear(y);
                if rng.chance(2, 3) {
                    coef = 1;
                }
            }
            if rng.coin() {
                // destructive move
                a.while_(x, |a| {
                    a.add(y, coef);
                    a.add(x, -1);
                });
            } else {
                a.while_(x, |a| {
                    a.add(y, coef);
                    a.add(t, 1);
                    a.add(x, -1);
                });
                a.while_(t, |a| {
                    a.add(x, 1);
                    a.add(t, -1);
                });
            }
            match rng.below(5) {
                0 | 1 => a.input(x),
                2 => a.set(x, rng.range(0, 5)),
                3 => a.add(x, rng.range(1, 4)),
                _ => {
                    let z = cell(rng);
                    if z != x {
                        a.while_(z, |a| {
                            a.add(x, 1);
                            a.add(z, -1);
                        });
                    }
                }
            }
            if rng.coin() {
                a.add(y, rng.range(-2, 2));
            }
            a.output(y);
            if rng.coin() {
                a.output(x);
            }
        }
        26 => {
            // a constant 2^k (folded at compile time) against the same power built at run time
            // from a flag the optimiser cannot know: C - R must be zero in all bits
            let p0 = k + cfg.scratch + 1; // constant
            let p1 = p0 + 1; // scratch
            let p2 = p0 + 2; // run-time value
            let p3 = p0 + 3; // flag source
            let kk = *rng.pick(&[7u32, 8, 15, 16, 31, 31, 32, 33, 47, 63]);
            for c in [p0, p1, p2, p3] {
                a.clear(c);
            }
            // flag = (input != 0), hidden behind control flow
            a.input(p3);
            a.while_(p3, |a| {
                a.clear(p3);
                a.add(p2, 1);
            });
            a.add(p0, 1);
            for cell in [p0, p2] {
                for _ in 0..kk / 2 {
                    a.while_(cell, |a| {
                        a.add(p1, 4);
                        a.add(cell, -1);
                    });
                    a.while_(p1, |a| {
                        a.add(cell, 1);
                        a.add(p1, -1);
                    });
                }
                if kk % 2 == 1 {
                    a.while_(cell, |a| {
                        a.add(p1, 2);
                        a.add(cell, -1);
                    });
                    a.while_(p1, |a| {
                        a.add(cell, 1);
                        a.add(p1, -1);
                    });
                }
            }
            // p0 -= p2 ; print whether anything is left
            a.while_(p2, |a| {
                a.add(p0, -1);
                a.add(p2, -1);
            });
            a.while_(p0, |a| {
                a.add(p1, 1);
                a.clear(p0);
            });
            a.output(p1);
            a.clear(p1);
        }
        27 => {
            // an `if` around a counted loop with output that keeps using values computed before the `if`
            let (x, y) = two(rng);
            let c = cell(rng);
            let n = cell(rng);
            let t = k + rng.range(0, cfg.scratch - 1);
            if c != n && c != x && c != y && n != x && n != y {
                a.add(n, rng.range(1, 3));
                if rng.chance(1, 3) {
                    a.output(x);
                }
                let fresh_scratch = rng.coin();
                a.while_(c, |a| {
                    a.while_(n, |a| {
                        if fresh_scratch {
                            a.clear(t);
                        }
                        // y += x, x preserved
                        a.while_(x, |a| {
                            a.add(y, 1);
                            a.add(t, 1);
                            a.add(x, -1);
                        });
                        a.while_(t, |a| {
                            a.add(x, 1);
                            a.add(t, -1);
                        });
                        a.output(y);
                        if rng.coin() {
                            stmt(rng, a, cfg, depth + 2, budget);
                        }
                        a.add(n, -1);
                    });
                    a.clear(c);
                });
                a.output(x);
                a.output(y);
            }
        }
        28 => {
            // two nested counted loops with output; the inner one keeps using a value that was
            // computed before the outer one
            let (x, y) = two(rng);
            let m = cell(rng);
            let n = cell(rng);
            let t = k + rng.range(0, cfg.scratch - 1);
            if m != n && m != x && m != y && n != x && n != y {
                // make x a computed value, not just a load
                a.add(x, rng.range(1, 3));
                if rng.coin() {
                    // ... that has been loaded once already
                    a.output(x);
                }
                // a scratch cell cleared right before the copy lets the optimiser prove x unchanged
                let fresh_scratch = rng.coin();
                a.add(m, rng.range(1, 2));
                a.while_(m, |a| {
                    a.add(n, 2);
                    a.while_(n, |a| {
                        if fresh_scratch {
                            a.clear(t);
                        }
                        a.while_(x, |a| {
                            a.add(y, 1);
                            a.add(t, 1);
                            a.add(x, -1);
                        });
                        a.while_(t, |a| {
                            a.add(x, 1);
                            a.add(t, -1);
                        });
                        a.output(y);
                        a.add(n, -1);
                    });
                    if rng.coin() {
                        a.output(x);
                    }
                    a.add(m, -1);
                });
                a.output(y);
            }
        }
        29 => {
            // a counted loop that accumulates a product of cells that themselves advance by a
            // constant each iteration (sum of squares / of x*y): the per-iteration increment of
            // the accumulator is not linear in the iteration number
            let p = k + cfg.scratch + 1;
            let (n, x, y, acc, t1, t2) = (p, p + 1, p + 2, p + 3, p + 4, p + 5);
            for c in [n, x, y, acc, t1, t2] {
                a.clear(c);
            }
            if rng.coin() {
                a.add(n, rng.range(1, 8));
            } else {
                a.input(n);
            }
            match rng.below(3) {
                0 => a.input(x),
                _ => a.add(x, rng.range(0, 5)),
            }
            a.add(y, rng.range(0, 4));
            let square = rng.chance(2, 3);
            let sx = *rng.pick(&[1i64, 2, 2, -1, -2, 3, 4, 0]);
            let sy = *rng.pick(&[0i64, 0, 1, 2, -1]);
            let also_linear = rng.chance(1, 3);
            a.while_(n, |a| {
                // t1 = x (x kept)
                a.while_(x, |a| {
                    a.add(t1, 1);
                    a.add(t2, 1);
                    a.add(x, -1);
                });
                a.while_(t2, |a| {
                    a.add(x, 1);
                    a.add(t2, -1);
                });
                // acc += t1 * (x | y), consuming t1
                let f = if square { x } else { y };
                a.while_(t1, |a| {
                    a.while_(f, |a| {
                        a.add(acc, 1);
                        a.add(t2, 1);
                        a.add(f, -1);
                    });
                    a.while_(t2, |a| {
                        a.add(f, 1);
                        a.add(t2, -1);
                    });
                    a.add(t1, -1);
                });
                if also_linear {
                    a.add(acc, 1);
                }
                a.add(x, sx);
                a.add(y, sy);
                a.add(n, -1);
            });
            a.output(acc);
            if rng.coin() {
                a.output(x);
            }
        }
        30 => {
            // inside an `if` or a counted loop: make a copy of y (y kept), print the copy, clear
            // it; y itself has an operation pending from before the block or changes per round
            let (y, c) = two(rng);
            let p = k + cfg.scratch + 1;
            let (t1, t2) = (p, p + 1);
            match rng.below(3) {
                0 => a.input(y),
                1 => a.add(y, rng.range(1, 5)),
                _ => {
                    a.input(y);
                    a.add(y, rng.range(1, 5));
                }
            }
            let as_if = rng.coin();
            if as_if {
                if rng.coin() {
                    a.input(c);
                } else {
                    a.add(c, 1);
                }
            } else {
                a.add(c, rng.range(1, 4));
            }
            let per_round = *rng.pick(&[0i64, 0, 1, 2, -1]);
            let print_original_too = rng.chance(1, 4);
            let clear_copy = rng.chance(3, 4);
            a.while_(c, |a| {
                a.clear(t1);
                a.clear(t2);
                a.while_(y, |a| {
                    a.add(t1, 1);
                    a.add(t2, 1);
                    a.add(y, -1);
                });
                a.while_(t2, |a| {
                    a.add(y, 1);
                    a.add(t2, -1);
                });
                a.output(t1);
                if clear_copy {
                    a.clear(t1);
                }
                if print_original_too {
                    a.output(y);
                }
                a.add(y, per_round);
                if as_if {
                    a.clear(c);
                } else {
                    a.add(c, -1);
                }
            });
            a.output(y);
        }
        34 => {
            // x = m*x + k repeated a constant number of times, the count around half and all of
            // the 8-bit range (closed forms that walk over the bits of the trip count)
            let p = k + cfg.scratch + 1;
            let (n, x, t) = (p, p + 1, p + 2);
            for c in [n, x, t] {
                a.clear(c);
            }
            match rng.below(8) {
                0 => a.add(n, -1), // all ones: 255 rounds on 8-bit cells, beyond every cap on wider ones
                1 => a.add(n, rng.range(2, 9)),
                _ => a.add(n, *rng.pick(&[63i64, 64, 65, 127, 128, 129, 130, 131, 160, 192, 200, 254, 255])),
            }
            if rng.coin() {
                a.input(x);
            } else {
                a.add(x, rng.range(0, 3));
            }
            let m = *rng.pick(&[2i64, 3, 4, 5, 6, 7, 9, 13, 16, -1, -3]);
            let kk = *rng.pick(&[1i64, 1, 2, 3, -1, 5, 0]);
            a.while_(n, |a| {
                a.while_(x, |a| {
                    a.add(t, m);
                    a.add(x, -1);
                });
                a.while_(t, |a| {
                    a.add(x, 1);
                    a.add(t, -1);
                });
                a.add(x, kk);
                a.add(n, -1);
            });
            a.output(x);
        }
        33 => {
            // a square or product is computed into y, then a factor is clobbered by input and y is
            // overwritten without having been read (or after exactly one use)
            let (x, y) = two(rng);
            let p = k + cfg.scratch + 1;
            let (t1, t2, z) = (p, p + 1, p + 2);
            a.clear(t1);
            a.clear(t2);
            if rng.coin() {
                a.input(x);
            }
            let square = rng.chance(2, 3);
            if !square {
                a.clear(z);
                a.input(z);
            }
            // t1 = x (x kept)
            a.while_(x, |a| {
                a.add(t1, 1);
                a.add(t2, 1);
                a.add(x, -1);
            });
            a.while_(t2, |a| {
                a.add(x, 1);
                a.add(t2, -1);
            });
            let f = if square { x } else { z };
            a.while_(t1, |a| {
                a.while_(f, |a| {
                    a.add(y, 1);
                    a.add(t2, 1);
                    a.add(f, -1);
                });
                a.while_(t2, |a| {
                    a.add(f, 1);
                    a.add(t2, -1);
                });
                a.add(t1, -1);
            });
            match rng.below(3) {
                0 => a.output(y),
                1 => a.output(x),
                _ => {}
            }
            a.input(f);
            a.clear(y);
            a.add(y, rng.range(0, 3));
            a.output(y);
            a.output(f);
        }
        32 => {
            // an `if` (taken or not, decided by input) whose body *ends* with a read of y that
            // keeps y, and right behind the `if` y is cleared / overwritten / read in, then shown
            let (y, z) = two(rng);
            let p = k + cfg.scratch + 1;
            let (c, t) = (p, p + 1);
            a.clear(c);
            a.clear(t);
            a.input(c);
            if rng.coin() {
                a.input(y);
            } else {
                a.add(y, rng.range(1, 9));
            }
            let other_first = rng.coin();
            a.while_(c, |a| {
                if other_first {
                    a.add(z, 1);
                }
                // z += y, y kept: the restoring loop is the last thing in the body (before c = 0)
                a.while_(y, |a| {
                    a.add(z, 1);
                    a.add(t, 1);
                    a.add(y, -1);
                });
                a.while_(t, |a| {
                    a.add(y, 1);
                    a.add(t, -1);
                });
                a.clear(c);
            });
            match rng.below(4) {
                0 | 1 => a.clear(y),
                2 => a.set(y, rng.range(1, 5)),
                _ => a.input(y),
            }
            a.output(y);
            a.output(z);
        }
        31 => {
            // a computed value, then a loop known to run at least once, then an `if` whose body
            // holds a loop that keeps reading the early value while it computes something else
            let (x, y) = two(rng);
            let p = k + cfg.scratch + 1;
            let (once, c, n, m, z, t) = (p, p + 1, p + 2, p + 3, p + 4, p + 5);
            for cell in [once, c, n, m, z, t] {
                a.clear(cell);
            }
            a.input(x);
            a.add(x, rng.range(1, 3));
            if rng.coin() {
                a.output(x);
            }
            // the at-least-once loop
            a.add(once, 1);
            match rng.below(3) {
                0 => a.while_(once, |a| {
                    a.input(once);
                    a.output(once);
                }),
                1 => {
                    a.add(once, rng.range(1, 3));
                    a.while_(once, |a| {
                        a.output(once);
                        a.add(once, -1);
                    })
                }
                _ => a.while_(once, |a| {
                    a.add(z, 2);
                    a.clear(once);
                }),
            }
            a.input(c);
            let counted = rng.coin();
            a.while_(c, |a| {
                if counted {
                    a.add(n, rng.range(2, 4));
                } else {
                    a.input(n);
                }
                a.while_(n, |a| {
                    // y += x (x kept), print
                    a.while_(x, |a| {
                        a.add(y, 1);
                        a.add(t, 1);
                        a.add(x, -1);
                    });
                    a.while_(t, |a| {
                        a.add(x, 1);
                        a.add(t, -1);
                    });
                    a.output(y);
                    // something else that needs a temporary of its own
                    a.input(m);
                    a.while_(m, |a| {
                        a.add(z, 2);
                        a.add(m, -1);
                    });
                    a.output(z);
                    if rng.coin() {
                        a.clear(z);
                    }
                    if counted {
                        a.add(n, -1);
                    } else {
                        a.input(n);
                    }
                });
                a.clear(c);
            });
            a.output(x);
        }
        23 => {
            // a real loop whose body ends in an `if` that adjusts the loop's own condition cell
            let (c, f) = two(rng);
            let adj = *rng.pick(&[-1i64, -1, 1, 2, -2]);
            a.input(f);
            a.add(c, 1);
            a.while_(c, |a| {
                a.input(c);
                a.output(c);
                if rng.chance(1, 3) {
                    stmt(rng, a, cfg, depth + 1, budget);
                }
                a.while_(f, |a| {
                    a.add(c, adj);
                    a.clear(f);
                });
            });
        }
        _ => {
            // input-controlled loop: read, loop while non-zero reading again
            let c = cell(rng);
            a.input(c);
            a.while_(c, |a| {
                stmt(rng, a, cfg, depth + 1, budget);
                a.input(c);
            });
        }
    }
}

pub fn structured(rng: &mut Rng) -> String {
    let cfg = StructCfg {
        k: rng.range(2, 6),
        scratch: rng.range(1, 2),
        max_depth: rng.below(4) as u32,
        even_steps: rng.chance(1, 4),
    };
    let mut a = Asm::new();
    if rng.chance(1, 3) {
        // start somewhere else so offsets are not all non-negative
        let start = rng.range(0, cfg.k - 1);
        a.ptr = start;
    }
    // initialise some cells
    for c in 0..cfg.k {
        match rng.below(4) {
            0 => a.input(c),
            1 => a.add(c, rng.range(0, 7)),
            _ => {}
        }
    }
    let n = rng.urange(1, 7);
    let mut budget = rng.range(3, 14) as i32;
    for _ in 0..n {
        stmt(rng, &mut a, &cfg, 0, &mut budget);
    }
    // dump
    let dump_all = rng.chance(3, 4);
    for c in 0..cfg.k + cfg.scratch {
        if dump_all || rng.coin() {
            a.output(c);
        }
    }
    a.out
}

// ---------------------------------------------------------------------------------
// F4: register pressure

/// Build constant `v` in `cell` using scratch `t` (both assumed zero): multiplication
/// chains so that big constants do not need long runs of `+`.
fn build_const(a: &mut Asm, cell: i64, t: i64, mut v: u64) {
    // digits in base 8, most significant first: x = x*8 + d
    let mut digits = Vec::new();
    if v == 0 {
        return;
    }
    while v > 0 {
        digits.push((v % 8) as i64);
        v /= 8;
    }
    digits.reverse();
    a.add(cell, digits[0]);
    for &d in &digits[1..] {
        // t = cell*8 ; cell = t + d
        a.while_(cell, |a| {
            a.add(t, 8);
            a.add(cell, -1);
        });
        a.while_(t, |a| {
            a.add(cell, 1);
            a.add(t, -1);
        });
        a.add(cell, d);
    }
}

pub fn pressure(rng: &mut Rng, width: u32) -> String {
    let n = rng.range(6, 18); // ring cells 1..=n, counter at 0, scratch after
    let mut a = Asm::new();
    let counter = 0;
    let ring = |i: i64| 1 + (i.rem_euclid(n));
    let t0 = n + 1;
    let t1 = n + 2;
    // initial values
    for i in 0..n {
        match rng.below(6) {
            0 => a.input(ring(i)),
            1 if width == 64 && rng.coin() => {
                let v = (1u64 << rng.range(31, 40)) + rng.below(1000);
                build_const(&mut a, ring(i), t0, v);
            }
            1 if width >= 32 => {
                let v = (1u64 << rng.range(20, 30)) + rng.below(1000);
                build_const(&mut a, ring(i), t0, v);
            }
            _ => a.add(ring(i), rng.range(0, 5)),
        }
    }
    a.input(counter);
    let mode = rng.below(4);
    let wide = width >= 32 && rng.chance(1, 3);
    let _ = t1;
    a.while_(counter, |a| {
        // Simultaneous update of all ring cells, written so that the optimiser sees
        // c_i' = f(c_{i+1}, c_{i+2}) with all right-hand sides evaluated on old values:
        // first accumulate into shadow cells beyond the ring, then move back.
        let shadow = |i: i64| n + 3 + i;
        for i in 0..n {
            let s1 = ring(i + 1);
            let s2 = ring(i + 2);
            let d = shadow(i);
            let c1 = *rng.pick(&[1i64, 1, 2, 3, -1, -2]);
            let c2 = *rng.pick(&[1i64, 1, 2, -1, 0]);
            if wide && rng.chance(1, 2) {
                // d += m^(j+1) * s1 through a chain of multiply loops that the optimiser folds into
                // one multiplier beyond 32 bits (s1 kept): wide immediates under register pressure
                let u = |k: i64| n + 3 + n + 1 + k;
                let m = *rng.pick(&[15i64, 16, 10, 7, 255]);
                let j = rng.range(5, 8);
                a.while_(s1, |a| {
                    a.add(u(0), 1);
                    a.add(t0, 1);
                    a.add(s1, -1);
                });
                a.while_(t0, |a| {
                    a.add(s1, 1);
                    a.add(t0, -1);
                });
                for k in 0..j {
                    a.while_(u(k), |a| {
                        a.add(u(k + 1), m);
                        a.add(u(k), -1);
                    });
                }
                a.while_(u(j), |a| {
                    a.add(d, m);
                    a.add(u(j), -1);
                });
            } else {
                // d += c1 * s1 (non-destructive via t0)
                a.while_(s1, |a| {
                    a.add(d, c1);
                    a.add(t0, 1);
                    a.add(s1, -1);
                });
                a.while_(t0, |a| {
                    a.add(s1, 1);
                    a.add(t0, -1);
                });
            }
            match mode {
                0 | 1 => {
                    if c2 != 0 {
                        a.while_(s2, |a| {
                            a.add(d, c2);
                            a.add(t0, 1);
                            a.add(s2, -1);
                        });
                        a.while_(t0, |a| {
                            a.add(s2, 1);
                            a.add(t0, -1);
                        });
                    }
                }
                2 => {
                    a.add(d, rng.range(-3, 3));
                }
                _ => {
                    // bilinear: d += s1 * s2
                    if rng.chance(1, 3) && s1 != s2 {
                        a.while_(s1, |a| {
                            a.while_(s2, |a| {
                                a.add(d, 1);
                                a.add(t1, 1);
                                a.add(s2, -1);
                            });
                            a.while_(t1, |a| {
                                a.add(s2, 1);
                                a.add(t1, -1);
                            });
                            a.add(t0, 1);
                            a.add(s1, -1);
                        });
                        a.while_(t0, |a| {
                            a.add(s1, 1);
                            a.add(t0, -1);
                        });
                    }
                }
            }
        }
        for i in 0..n {
            let d = shadow(i);
            let r = ring(i);
            a.clear(r);
            a.while_(d, |a| {
                a.add(r, 1);
                a.add(d, -1);
            });
        }
        if rng.chance(1, 4) {
            a.output(ring(rng.range(0, n - 1)));
        }
        a.add(counter, -1);
    });
    for i in 0..n {
        a.output(ring(i));
        if width > 8 && rng.chance(1, 2) {
            // show a higher byte too: divide by 256 is too costly, so print after adding neighbours
        }
    }
    a.out
}

// ---------------------------------------------------------------------------------
// F5: roamers

pub fn roamer(rng: &mut Rng, big: bool) -> String {
    let mut a = Asm::new();
    let far = |rng: &mut Rng| -> i64 {
        if big {
            match rng.below(4) {
                0 => rng.range(1, 8),
                1 => rng.range(20, 200),
                2 => rng.range(200, 1500),
                _ => rng.range(1500, 6000),
            }
        } else {
            match rng.below(16) {
                0..=4 => rng.range(1, 8),
                5..=9 => rng.range(8, 80),
                10..=14 => rng.range(80, 400),
                // now and then a tape of a few hundred KiB (growth paths that depend on size)
                _ => rng.range(20_000, 60_000),
            }
        }
    };
    let steps = rng.urange(2, 7);
    for _ in 0..steps {
        match rng.below(10) {
            0 => {
                // glider right: carries a counter N cells to the right
                let n = rng.range(1, if big { 60 } else { 20 });
                a.raw(&"+".repeat(n as usize));
                a.raw(*rng.pick(&["[-[->+<]>]", "[-[->+<]+>]", "[[->+<]>-]", "[-[->>+<<]>>]"]));
                a.raw("+.");
            }
            1 => {
                let n = rng.range(1, if big { 60 } else { 20 });
                a.raw(&"+".repeat(n as usize));
                a.raw(*rng.pick(&["[-[-<+>]<]", "[-[-<+>]+<]", "[[-<+>]<-]", "[-[-<<+>>]<<]"]));
                a.raw("+.");
            }
            2 => {
                // far jump right, write, print
                let d = far(rng);
                a.raw(&">".repeat(d as usize));
                a.raw("+++.");
            }
            3 => {
                let d = far(rng);
                a.raw(&"<".repeat(d as usize));
                a.raw("++.");
            }
            4 => {
                // lay a trail then scan back over it
                let n = rng.range(1, 30);
                let stride = rng.range(1, 3);
                for _ in 0..n {
                    a.raw("+");
                    a.raw(&">".repeat(stride as usize));
                }
                a.raw(&"<".repeat(stride as usize));
                a.raw(&format!("[{}]", "<".repeat(stride as usize)));
                a.raw("+.");
            }
            5 => {
                let n = rng.range(1, 30);
                let stride = rng.range(1, 3);
                for _ in 0..n {
                    a.raw("+");
                    a.raw(&"<".repeat(stride as usize));
                }
                a.raw(&">".repeat(stride as usize));
                a.raw(&format!("[{}]", ">".repeat(stride as usize)));
                a.raw("+.");
            }
            8 if rng.coin() => {
                // use the current cell, scan away, clear the cell under the pointer, look around
                a.raw(*rng.pick(&["+++", ",", ",+", ",>,<"][..]));
                a.raw(*rng.pick(&["[->+>+<<]>>[-<<+>>]<<", "[->+<]>[-<+>]<", "[->>+<<]>>[-<<+>>]<<"][..]));
                a.raw(*rng.pick(&["", "<", "<<", ">"][..]));
                a.raw(*rng.pick(&["[>]", "[<]", ">[>]", "<[<]", ">>[>]", "[>>]"][..]));
                a.raw("[-]");
                a.raw(*rng.pick(&[".", "<.>", ">.<", "<.>>.<", "<<.>>.>."][..]));
            }
            7 if rng.coin() => {
                // read the cell at offset d, scan on the cell at offset 0, then clear offset d in
                // the new frame: the same numeric offset names two different cells
                let d = *rng.pick(&[1i64, 1, -1, 2, -2]);
                let go = |a: &mut Asm, n: i64| a.raw(&(if n > 0 { ">" } else { "<" }).repeat(n.unsigned_abs() as usize));
                a.raw(*rng.pick(&[",", "+", ",+", ""][..]));
                go(&mut a, d);
                a.raw(*rng.pick(&[",", ",+", "++"][..]));
                a.raw(*rng.pick(&["[->+>+<<]>>[-<<+>>]<<", "[-<+<+>>]<<[->>+<<]>>", "[->>+>+<<<]>>>[-<<<+>>>]<<<"][..]));
                go(&mut a, -d);
                a.raw(*rng.pick(&["[>]", "[<]", "[>>]", "[<<]"][..]));
                go(&mut a, d);
                a.raw("[-]");
                a.raw(*rng.pick(&[".", "<.>", ">.<", ".>[>]<[.[-]]", "<.>>.<"][..]));
            }
            9 if rng.coin() => {
                // a trail of cells holding 256 (zero in their low byte on wide cells), then a scan over it
                let n = rng.range(1, 6);
                let right = rng.coin();
                for _ in 0..n {
                    // cell = 16*16 using the neighbour as a counter
                    if right {
                        a.raw(">++++++++++++++++[<++++++++++++++++>-]<>");
                    } else {
                        a.raw("<++++++++++++++++[>++++++++++++++++<-]><");
                    }
                }
                a.raw(if right { "<[<]>+." } else { ">[>]<+." });
            }
            6 => {
                // input-driven walk: read n, walk n cells in a direction leaving marks
                a.raw(",");
                a.raw(*rng.pick(&["[[->+<]>-]", "[[-<+>]<-]", "[->>+<<]>>", "[-<<+>>]<<"]));
                a.raw("-.");
            }
            7 => {
                // revisit: go out, mark, come back, print, go out again and print mark
                let d = far(rng);
                let dir = if rng.coin() { ">" } else { "<" };
                let back = if dir == ">" { "<" } else { ">" };
                a.raw("++");
                a.raw(&dir.repeat(d as usize));
                a.raw("+++++");
                a.raw(&back.repeat(d as usize));
                a.raw(".");
                a.raw(&dir.repeat(d as usize));
                a.raw(".");
            }
            8 => {
                // loop with net shift inside a counted loop
                let n = rng.range(1, 12);
                a.raw(&"+".repeat(n as usize));
                a.raw(*rng.pick(&["[>+>+<<-]>[>]", "[->+>+<<]>>[<]", "[>>+<<-]>>[-<+>]<.", "[-<+<+>>]<<[>]"]));
                a.raw(".");
            }
            _ => {
                a.raw(*rng.pick(&["[>]", "[<]", "+[>]", "+[<]", "[>>]", "[<<]", "+[>>]", "+[<<<]"]));
                a.raw("+.");
            }
        }
    }
    a.raw(".");
    a.out
}

// ---------------------------------------------------------------------------------
// F6: divergent by construction

pub fn divergent(rng: &mut Rng) -> String {
    let mut s = String::new();
    // optional finite prefix that outputs something
    match rng.below(4) {
        0 => s.push_str("+."),
        1 => s.push_str(",.>"),
        2 => s.push_str(&structured(rng)),
        _ => {}
    }
    let core = match rng.below(12) {
        0 => "+[]".to_string(),
        1 => "+[--]".to_string(),
        2 => "+++[--]".to_string(),
        3 => "+[.]".to_string(),
        4 => "+[.+]".to_string(),
        5 => "+[>+<[-]+]".to_string(),
        6 => "+[[-]+]".to_string(),
        7 => "-[>+<--]".to_string(),
        8 => ",[>+<]".to_string(),   // diverges iff first input non-zero
        9 => "+[>,.<]".to_string(),  // prints inputs forever (zeros after EOF)
        10 => {
            // a loop on a non-zero cell whose body has no net effect: skipped inner loops on
            // zero cells, cancelling pairs, there-and-back moves
            let mut body = String::new();
            for _ in 0..rng.urange(1, 4) {
                body.push_str(*rng.pick(&[">[.]<", ">[-]<", "<[>]>", ">[[-]+]<", "+-", "><", ">+-<", ">>[<]<<", ">[>+<-]<", "[-]+", ">[]<"][..]));
            }
            format!("{}[{}]", *rng.pick(&["+", ",", "++", "-"][..]), body)
        }
        _ => {
            // nested: outer counted loop containing an inner infinite loop reached on iteration j
            let j = rng.range(1, 5);
            format!("{}[->+<[>]>{}[-[+]-]<<]", "+".repeat(6), "-".repeat(j as usize))
        }
    };
    // wrap the core in 0-2 levels of structure
    let wrapped = match rng.below(4) {
        0 => core,
        1 => format!("+[{}]", core),
        2 => format!("++[->{}<]", core),
        _ => format!("{}.{}", core, "+."),
    };
    s.push_str(&wrapped);
    // dead code after
    if rng.coin() {
        s.push_str("+.");
    }
    s
}

// ---------------------------------------------------------------------------------
// F8: many values alive in temporaries across input/output calls

/// Straight-line (or single-loop) passes over k cells mixing small arithmetic, copies
/// between cells, inputs and outputs, so that the bytecode generator's value numbering
/// keeps many cell values in temporaries across `.` and `,` (runtime calls in the JIT).
pub fn io_pressure(rng: &mut Rng) -> String {
    let k = rng.range(5, 14);
    let mut a = Asm::new();
    for c in 0..k {
        match rng.below(3) {
            0 => a.add(c, rng.range(1, 9)),
            _ => a.input(c),
        }
    }
    let in_loop = rng.chance(1, 3);
    let counter = k + 1;
    let scratch = k;
    if rng.chance(1, 3) {
        // a constant that does not fit 32 bits (on 64-bit cells), added to a few cells whose
        // values are alive in temporaries: wide-immediate forms of the instruction selector
        let big = (1u64 << rng.range(32, 40)) + 1 + rng.below(200);
        let far = k + 2;
        build_const(&mut a, far, far + 1, big);
        let targets: Vec<i64> = (0..rng.range(2, 4)).map(|_| rng.range(0, k - 1)).collect();
        a.while_(far, |a| {
            for &t in &targets {
                a.add(t, 1);
            }
            a.add(far, -1);
        });
    }
    let passes = rng.urange(2, 4);
    let body = |a: &mut Asm, rng: &mut Rng| {
        for _ in 0..passes {
            let forward = rng.coin();
            let style = rng.below(5);
            for i in 0..k {
                let c = if forward { i } else { k - 1 - i };
                match style {
                    0 => {
                        a.add(c, -1);
                        a.output(c);
                    }
                    1 => {
                        a.add(c, rng.range(-2, 3));
                        if rng.chance(1, 3) {
                            a.output(c);
                        }
                    }
                    2 => {
                        // c += neighbour (non-destructive), then maybe print / read
                        let d = (c + 1) % k;
                        a.while_(d, |a| {
                            a.add(c, 1);
                            a.add(scratch, 1);
                            a.add(d, -1);
                        });
                        a.while_(scratch, |a| {
                            a.add(d, 1);
                            a.add(scratch, -1);
                        });
                        if rng.chance(1, 2) {
                            a.output(c);
                        }
                    }
                    3 => {
                        if rng.chance(1, 4) {
                            a.input(c);
                        } else {
                            a.add(c, 1);
                        }
                        if rng.chance(1, 2) {
                            a.output((c + rng.range(0, k - 1)) % k);
                        }
                    }
                    _ => {
                        a.output(c);
                        a.add(c, rng.range(-1, 2));
                    }
                }
            }
            if rng.chance(1, 3) {
                // an input in the middle: everything alive must survive the call
                a.input(rng.range(0, k - 1));
            }
        }
    };
    // products of pairs of cells into fresh cells, all operands alive at once
    let n_prod = if rng.chance(1, 2) { rng.urange(2, 10) } else { 0 };
    let prod_base = k + 3;
    let products = |a: &mut Asm, rng: &mut Rng| {
        for n in 0..n_prod {
            let x = rng.range(0, k - 1);
            let mut y = rng.range(0, k - 2);
            if y >= x {
                y += 1;
            }
            let z = prod_base + n as i64;
            let t = k + 2;
            // z += x * y, x and y preserved (x via scratch2, y via t)
            let sx = prod_base + n_prod as i64 + 1;
            a.while_(x, |a| {
                a.while_(y, |a| {
                    a.add(z, 1);
                    a.add(t, 1);
                    a.add(y, -1);
                });
                a.while_(t, |a| {
                    a.add(y, 1);
                    a.add(t, -1);
                });
                a.add(sx, 1);
                a.add(x, -1);
            });
            a.while_(sx, |a| {
                a.add(x, 1);
                a.add(sx, -1);
            });
            if rng.chance(1, 2) {
                // in place: x = x * y
                a.clear(x);
                a.while_(z, |a| {
                    a.add(x, 1);
                    a.add(z, -1);
                });
            }
            if rng.chance(1, 3) {
                a.output(z);
            }
        }
    };
    if in_loop {
        a.input(counter);
        a.while_(counter, |a| {
            body(a, rng);
            products(a, rng);
            a.add(counter, -1);
        });
    } else {
        body(&mut a, rng);
        products(&mut a, rng);
    }
    for c in 0..k {
        a.output(c);
    }
    for n in 0..n_prod {
        a.output(prod_base + n as i64);
    }
    a.out
}

// ---------------------------------------------------------------------------------
// F9: bracket-dense programs (branches that target branches, empty and skipped loops)

pub fn brackets(rng: &mut Rng) -> String {
    let len = rng.urange(4, 28);
    let w = [3u32, 3, 2, 2, 2, 3, 8, 8];
    let chars = b"+-<>,.[]";
    let mut s = String::new();
    let mut depth = 0usize;
    for _ in 0..len {
        let c = chars[rng.weighted(&w)];
        match c {
            b'[' => {
                if depth < 6 {
                    depth += 1;
                    s.push('[');
                }
            }
            b']' => {
                if depth > 0 {
                    depth -= 1;
                    s.push(']');
                }
            }
            _ => s.push(c as char),
        }
    }
    for _ in 0..depth {
        s.push(']');
    }
    s
}

// ---------------------------------------------------------------------------------
// F10: classic idioms from the wild (divmod, decimal printing, comparisons, if/else),
// strung together on overlapping cells. Their *intended* meaning is irrelevant: the
// reference model says what they do; what matters is their shape (conditional pointer
// moves, loops that end on a different cell than they started, flags).

pub const IDIOMS: &[&str] = &[
    // divmod  n d -> 0 d-n%d n%d n/d
    "[->-[>+>>]>[+[-<+>]>+>>]<<<<<]",
    "[->+>-[>+>>]>[+[-<+>]>+>>]<<<<<<]",
    // print cell as decimal
    ">>++++++++++<<[->+>-[>+>>]>[+[-<+>]>+>>]<<<<<<]>>[-]>>>++++++++++<[->-[>+>>]>[+[-<+>]>+>>]<<<<<]>[-]>>[>++++++[-<++++++++>]<.<<+>+>[-]]<[<[->-<]++++++[->++++++++<]>.[-]]<<++++++[-<++++++++>]<.[-]<<[-<+>]",
    // x == y
    "[->-<]+>[<->[-]]<",
    // logical not with temp
    ">+<[>-<[-]]>[<+>-]<",
    // if (x) {A} else {B}
    ">+<[>-<[-]>>+.<<]>[->>-.<<]<",
    // x = x < y (wrapping, destructive)
    ">>+<<[->[->>+<]>[<]<<]>[-]>[-<<+>>]<<",
    // copy x to two places and back
    "[->+>+<<]>>[-<<+>>]<<",
    // multiply x*y -> z
    "[->[->+>+<<]>>[-<<+>>]<<<]",
    // square
    "[->+>+<<]>[->[->+>+<<]>>[-<<+>>]<<<]",
    // find zero to the right, come back to a marker
    "[>]<[<]>",
    "+[>+]<[<]>",
    // swap
    "[->>+<<]>[-<+>]>[-<+>]<<",
    // x = x / 2 with remainder
    "[->+>>+<<<]>[-[-<+>>]>[-<<+>+>]<<]",
    // sum a run of cells leftwards
    "[>]<[[-<+>]<]",
    // decrement-until-equal (min)
    "[>[->+>+<<]>>[-<<+>>]<[[-]<<->>]<<]",
];

pub fn idioms(rng: &mut Rng) -> String {
    let mut s = String::new();
    // a few inputs / constants on neighbouring cells
    let k = rng.urange(2, 5);
    for _ in 0..k {
        match rng.below(3) {
            0 => s.push_str(&"+".repeat(rng.urange(1, 12))),
            _ => s.push(','),
        }
        s.push('>');
    }
    s.push_str(&"<".repeat(k));
    let n = rng.urange(1, 4);
    for _ in 0..n {
        // reposition a little
        match rng.below(4) {
            0 => s.push('>'),
            1 => s.push('<'),
            2 => s.push_str(">>"),
            _ => {}
        }
        if rng.chance(1, 3) {
            s.push(',');
        }
        s.push_str(*rng.pick(IDIOMS));
        if rng.chance(1, 2) {
            s.push_str(*rng.pick(&[".", ">.<", ">.>.<<", "<.>", ".>.>.>.<<<"][..]));
        }
    }
    // dump a window
    s.push_str("<<.>.>.>.>.>.");
    s
}

// ---------------------------------------------------------------------------------
// F11: long, mostly straight-line programs (10^4-10^5 bytecode instructions): deep
// tail-call chains in the release dispatcher, large machine-code buffers, rel32 branches
// across the whole program.

/// Very long runs of one command (lengths around 2^7, 2^8, 2^15, 2^16), built up in one
/// piece and taken down in several pieces separated by other bytes, then tested for zero.
fn long_runs(rng: &mut Rng) -> String {
    let lens = [127usize, 128, 129, 255, 256, 257, 32767, 32768, 32769, 65535, 65536, 65537, 40000, 100000];
    let mut s = String::new();
    for _ in 0..rng.urange(1, 3) {
        let len = *rng.pick(&lens[..]);
        if rng.chance(1, 4) {
            // pointer runs: out and back, leaving marks
            let (out, back) = if rng.coin() { ('>', '<') } else { ('<', '>') };
            s.push_str("+.");
            s.extend(std::iter::repeat(out).take(len));
            s.push_str("++.");
            s.extend(std::iter::repeat(back).take(len));
            s.push_str("+.");
            continue;
        }
        let (up, down) = if rng.coin() { ('+', '-') } else { ('-', '+') };
        s.extend(std::iter::repeat(up).take(len));
        if rng.coin() {
            s.push('.');
        }
        let residue = *rng.pick(&[0usize, 0, 0, 1, 2]);
        let mut remaining = len - residue.min(len);
        while remaining > 0 {
            let p = (*rng.pick(&[1usize, 100, 10_000, 32_767, 32_768, 65_536])).min(remaining);
            s.extend(std::iter::repeat(down).take(p));
            s.push_str(*rng.pick(&[" ", "><", "x", "\n", "<>"]));
            remaining -= p;
        }
        // flag: anything left?
        s.push_str("[>+<[-]]>.[-]<");
    }
    s
}

/// A program of 70-400 KiB: loops that are skipped (their cell is zero) at source positions
/// that are congruent modulo 2^8 / 2^12 / 2^16 but differ in length, and a loop whose body is
/// larger than 64 KiB that is entered on the first round of an outer loop and skipped on the
/// second. Every loop body prints, so a wrong jump shows; markers are printed in between.
fn big_sparse(rng: &mut Rng) -> String {
    let filler = |n: usize, rng: &mut Rng| -> String {
        // neutral code: pairs that cancel
        let unit = *rng.pick(&["+-", "-+", "><", "<>"]);
        let mut f = unit.repeat(n / 2);
        if n % 2 == 1 {
            f.push(' ');
        }
        f
    };
    let mut s = String::new();
    // cell 0: marker; cell 1: always zero (skipped loops); cell 2: rounds; cell 3: big-body flag
    s.push_str(">>>+<<<>>++[<<");
    let with_big_body = rng.chance(2, 3);
    if with_big_body {
        let body = *rng.pick(&[65_530usize, 65_536, 65_540, 70_000, 131_080]);
        s.push_str(">>>[<<<+.");
        s.push_str(&filler(body, rng));
        s.push_str(">>>[-]]<<<");
    }
    let n = rng.urange(2, 5);
    for i in 0..n {
        // a skipped loop of its own length
        let junk_len = rng.urange(0, 40) * (i + 1);
        s.push_str(">[");
        s.push_str(".+");
        s.push_str(&filler(junk_len, rng));
        s.push_str("]<+.");
        // distance to the next one: exactly a power of two now and then
        let here = s.len();
        let dist = match rng.below(4) {
            0 => 256usize,
            1 => 4096,
            2 => 65_536,
            _ => rng.urange(10, 70_000),
        };
        // the next `[` follows one `>` after the filler; the previous `[` was at here - (junk + 8)
        let prev_open = here - (junk_len + 7);
        let target = prev_open + dist * rng.urange(1, 2);
        if target > here + 1 {
            s.push_str(&filler(target - here - 1, rng));
        }
    }
    s.push_str(">>-]<<.");
    s
}

pub fn long_straight(rng: &mut Rng) -> String {
    if rng.chance(1, 4) {
        return long_runs(rng);
    }
    if rng.chance(1, 5) {
        return big_sparse(rng);
    }
    let big = rng.chance(1, 4);
    let n = rng.urange(4_000, if big { 60_000 } else { 15_000 });
    let mut s = String::with_capacity(n * 3);
    let wrap_in_loop = rng.chance(1, 3);
    if wrap_in_loop {
        s.push_str("+[");
    }
    let mut outs = 0;
    for _ in 0..n {
        match rng.below(24) {
            0..=5 => s.push_str("+>"),
            6..=9 => s.push_str("-<"),
            10..=12 => s.push('+'),
            13 => s.push_str("[-]"),
            14 => s.push_str("[->+<]"),
            15 => s.push_str(">"),
            16 => s.push_str("<"),
            17 => {
                if outs < 300 {
                    s.push('.');
                    outs += 1;
                }
            }
            18 => s.push_str("+>+<"),
            _ => s.push_str("->"),
        }
    }
    if wrap_in_loop {
        s.push_str("[-]]");
    }
    s.push_str(".>.");
    s
}

// ---------------------------------------------------------------------------------
// F12 / F13: expression growth and deep nesting (shared with C13)

/// Shapes aimed at expression growth: chains of products of sums, repeated squaring.
/// One cell accumulates a sum of many two-variable products of run-time values (each
/// factor itself a two-term sum), is forced out to memory by an output and is then used
/// again in the same block: a single stored expression with dozens of operations.
fn big_expression(rng: &mut Rng) -> String {
    let mut a = Asm::new();
    let pairs = rng.range(2, 5);
    // layout: acc at 0, y at 1, scratch 2,3, pairs from 4 on (a_i at 4+2i, b_i at 5+2i)
    let (acc, y, t0, t1) = (0i64, 1i64, 2i64, 3i64);
    for i in 0..pairs {
        a.input(4 + 2 * i);
        a.input(5 + 2 * i);
    }
    a.input(y);
    if rng.coin() {
        a.add(y, 1);
    }
    for i in 0..pairs {
        let (x, b) = (4 + 2 * i, 5 + 2 * i);
        // x += b
        a.while_(b, |a| {
            a.add(x, 1);
            a.add(b, -1);
        });
        // acc += x * y   (x consumed, y preserved through t1)
        a.while_(x, |a| {
            a.while_(y, |a| {
                a.add(acc, 1);
                a.add(t1, 1);
                a.add(y, -1);
            });
            a.while_(t1, |a| {
                a.add(y, 1);
                a.add(t1, -1);
            });
            a.add(x, -1);
        });
    }
    let _ = t0;
    a.output(acc);
    a.go(acc);
    a.raw(*rng.pick(&["[]", "[.-]", "[>>+<<[-]]>>.<<", "[-]", "[>>+<<-]>>.", "[.[-]]"][..]));
    a.raw("+.");
    a.out
}

pub fn explosive(rng: &mut Rng) -> String {
    explosive_w(rng, *rng.clone().pick(&[8u32, 16, 32, 64]))
}

/// z = 2^(width-1) * a * b + k * c * c (+ d): product terms whose coefficient is exactly half
/// the modulus next to squared variables, the special cases of expression normalisation.
fn half_modulus_mix(rng: &mut Rng, width: u32) -> String {
    let mut a = Asm::new();
    // cells: a=0 b=1 c=2 d=3 z=4 t=5 u=6 v=7
    for c in 0..4 {
        if rng.chance(3, 4) {
            a.input(c);
        } else {
            a.add(c, rng.range(1, 5));
        }
    }
    let (z, t, u, v) = (4i64, 5i64, 6i64, 7i64);
    // z += a*b   (a consumed into v and restored, b preserved through t)
    let mul_into = |a: &mut Asm, x: i64, y: i64, dst: i64| {
        a.while_(x, |a| {
            a.while_(y, |a| {
                a.add(dst, 1);
                a.add(t, 1);
                a.add(y, -1);
            });
            a.while_(t, |a| {
                a.add(y, 1);
                a.add(t, -1);
            });
            a.add(v, 1);
            a.add(x, -1);
        });
        a.while_(v, |a| {
            a.add(x, 1);
            a.add(v, -1);
        });
    };
    mul_into(&mut a, 0, 1, z);
    // z *= 2^(width-1)
    for _ in 0..width - 1 {
        a.while_(z, |a| {
            a.add(t, 2);
            a.add(z, -1);
        });
        a.while_(t, |a| {
            a.add(z, 1);
            a.add(t, -1);
        });
    }
    // u = c*c (via a copy of c in v... use mul of c with itself through a temporary copy)
    a.while_(2, |a| {
        a.add(u, 1);
        a.add(t, 1);
        a.add(2, -1);
    });
    a.while_(t, |a| {
        a.add(2, 1);
        a.add(t, -1);
    });
    // now u == c ; z += k * (u * c)
    let k = rng.range(1, 4);
    for _ in 0..k {
        mul_into(&mut a, u, 2, z);
    }
    if rng.coin() {
        a.while_(3, |a| {
            a.add(z, 1);
            a.add(3, -1);
        });
    }
    a.output(z);
    a.while_(z, |a| {
        a.add(t, 1);
        a.clear(z);
    });
    a.output(t);
    a.out
}

pub fn explosive_w(rng: &mut Rng, width: u32) -> String {
    if rng.chance(1, 3) {
        return big_expression(rng);
    }
    if rng.chance(1, 4) {
        return half_modulus_mix(rng, width);
    }
    let mut a = Asm::new();
    let k = rng.range(3, 6);
    for c in 0..k {
        if rng.coin() {
            a.input(c);
        } else {
            a.add(c, rng.range(1, 4));
        }
    }
    let t = k;
    let t2 = k + 1;
    let steps = rng.urange(2, 7);
    let wrap = rng.chance(1, 2);
    let body = |a: &mut Asm, rng: &mut Rng| {
        for _ in 0..steps {
            let x = rng.range(0, k - 1);
            let mut y = rng.range(0, k - 2);
            if y >= x {
                y += 1;
            }
            match rng.below(4) {
                3 => {
                    // x = x * 2^(width-1): coefficients at half the modulus
                    for _ in 0..width - 1 {
                        a.while_(x, |a| {
                            a.add(t, 2);
                            a.add(x, -1);
                        });
                        a.while_(t, |a| {
                            a.add(x, 1);
                            a.add(t, -1);
                        });
                    }
                }
                0 => {
                    // x = x * y (y preserved)
                    a.while_(x, |a| {
                        a.while_(y, |a| {
                            a.add(t, 1);
                            a.add(t2, 1);
                            a.add(y, -1);
                        });
                        a.while_(t2, |a| {
                            a.add(y, 1);
                            a.add(t2, -1);
                        });
                        a.add(x, -1);
                    });
                    a.while_(t, |a| {
                        a.add(x, 1);
                        a.add(t, -1);
                    });
                }
                1 => {
                    // x = x * x
                    a.while_(x, |a| {
                        a.add(t, 1);
                        a.add(t2, 1);
                        a.add(x, -1);
                    });
                    a.while_(t, |a| {
                        a.while_(t2, |a| {
                            a.add(x, 1);
                            a.add(y, 1);
                            a.add(t2, -1);
                        });
                        a.while_(y, |a| {
                            a.add(t2, 1);
                            a.add(y, -1);
                        });
                        a.add(t, -1);
                    });
                    a.clear(t2);
                }
                _ => {
                    // x += y + const
                    a.while_(y, |a| {
                        a.add(x, 1);
                        a.add(t, 1);
                        a.add(y, -1);
                    });
                    a.while_(t, |a| {
                        a.add(y, 1);
                        a.add(t, -1);
                    });
                    a.add(x, rng.range(1, 3));
                }
            }
        }
    };
    if wrap {
        let c = k + 2;
        a.input(c);
        a.while_(c, |a| {
            body(a, rng);
            a.add(c, -1);
        });
    } else {
        body(&mut a, rng);
    }
    for c in 0..k {
        a.output(c);
    }
    a.out
}

/// A tower that is entered all the way down, with sibling loops at the bottom and between
/// the closing brackets (a loop at some depth is left, then another one at the same depth
/// runs for several iterations). Every `]` of the tower finds a fresh zero cell.
fn deep_tower_with_siblings(rng: &mut Rng) -> String {
    let depth = match rng.below(4) {
        0 => rng.urange(20, 200),
        // around the sizes a fixed-capacity loop stack would have
        1 => *rng.pick(&[16usize, 32, 64, 128, 256]) + rng.urange(0, 6) - 3,
        2 => rng.urange(120, 140),
        _ => rng.urange(200, 300),
    };
    let snippets = [">+[-]", ">++[.-]", ">+++[->+<]>[.-]", ">>++<+[-]>[.-]>", ">,[.-]", ">++[>++[.-]<-]", ">+[>+[>+[-]<-]<-]"];
    let mut s = String::new();
    for _ in 0..depth {
        s.push_str("+[");
    }
    for _ in 0..rng.urange(1, 3) {
        s.push_str(*rng.pick(&snippets[..]));
    }
    s.push('>');
    for _ in 0..depth {
        if rng.chance(1, 8) {
            s.push_str(*rng.pick(&snippets[..]));
            s.push('>');
        }
        s.push(']');
    }
    s.push_str("+.");
    s
}

pub fn deep_nesting(rng: &mut Rng) -> String {
    if rng.chance(2, 5) {
        return deep_tower_with_siblings(rng);
    }
    let depth = rng.urange(20, 200);
    let mut s = String::from(",");
    for i in 0..depth {
        s.push('[');
        if i % 7 == 3 {
            s.push_str(*rng.pick(&[">+<", "-", ".", ">", "<+>"][..]));
        }
    }
    s.push_str(*rng.pick(&["-", ">+<-", ".-", ""][..]));
    for i in 0..depth {
        if i % 5 == 1 {
            s.push_str(*rng.pick(&["-", ">", "<", "+"][..]));
        }
        s.push(']');
    }
    s.push('.');
    s
}


// ---------------------------------------------------------------------------------
// F7: comment salting

pub fn salt(rng: &mut Rng, prog: &str) -> String {
    let salts = ["a", " ", "\n", "x y", "é", "→", "𝄞", "#", "(", "0", "日本"];
    // one run in three salts with the ASCII neighbours of the commands instead: code points
    // one off, one bit off and the other letter case (what a byte-wise scanner may confuse)
    let near: Vec<char> = {
        let cmds = b"+-<>,.[]";
        let mut v = Vec::new();
        for &c in cmds {
            for d in [c.wrapping_sub(1), c + 1, c ^ 1, c ^ 2, c ^ 4, c ^ 0x20, c ^ 0x40] {
                if (0x20..0x7f).contains(&d) && !cmds.contains(&d) {
                    v.push(d as char);
                }
            }
        }
        v
    };
    let use_near = rng.chance(1, 3);
    let mut out = String::new();
    let p = rng.range(4, 30) as u64;
    for c in prog.chars() {
        if rng.below(p) == 0 {
            if use_near {
                out.push(*rng.pick(&near[..]));
            } else {
                out.push_str(*rng.pick(&salts[..]));
            }
        }
        // a neighbour right behind a bracket now and then
        if use_near && (c == '[' || c == ']') && rng.chance(1, 3) {
            out.push(c);
            out.push(*rng.pick(&near[..]));
            continue;
        }
        out.push(c);
    }
    out
}

/// One program for the equivalence-style checks.
pub fn program(rng: &mut Rng, fam: Family, width: u32, corpus: &[String], big: bool) -> String {
    let p = match fam {
        Family::Raw => raw(rng),
        Family::Corpus => corpus_mutation(rng, corpus),
        Family::Structured => structured(rng),
        Family::Pressure => pressure(rng, width),
        Family::Roamer => roamer(rng, big),
        Family::Divergent => divergent(rng),
        Family::IoPressure => io_pressure(rng),
        Family::Brackets => brackets(rng),
        Family::Idioms => idioms(rng),
        Family::Long => long_straight(rng),
        Family::Explosive => explosive_w(rng, width),
        Family::Nested => deep_nesting(rng),
    };
    if rng.chance(1, 8) {
        salt(rng, &p)
    } else {
        p
    }
}

// ---------------------------------------------------------------------------------
// Growth pairs (C13): the same construction at size parameter k and 2k. The source is
// linear in k, so compile cost must not grow by more than a polynomial factor.

fn growth_program(shape: u32, k: usize, consts: &[i64], flags: &[bool]) -> String {
    let mut a = Asm::new();
    // cells: 0 acc, 1 x, 2 y, 3 t, 4 t2, 5.. extra
    let (acc, x, y, t, t2) = (0i64, 1i64, 2i64, 3i64, 4i64);
    // dst = dst * src (src kept), using t, t2
    let mul = |a: &mut Asm, dst: i64, src: i64| {
        a.while_(dst, |a| {
            a.while_(src, |a| {
                a.add(t, 1);
                a.add(t2, 1);
                a.add(src, -1);
            });
            a.while_(t2, |a| {
                a.add(src, 1);
                a.add(t2, -1);
            });
            a.add(dst, -1);
        });
        a.while_(t, |a| {
            a.add(dst, 1);
            a.add(t, -1);
        });
    };
    match shape {
        0 => {
            // product of sums: acc *= (x_i + c_i)
            a.add(acc, 1);
            for i in 0..k {
                a.clear(x);
                a.input(x);
                a.add(x, consts[i]);
                mul(&mut a, acc, x);
            }
        }
        1 => {
            // Horner: acc = acc * x + c_i
            a.input(x);
            a.add(acc, 1);
            for i in 0..k {
                mul(&mut a, acc, x);
                a.add(acc, consts[i]);
            }
        }
        2 => {
            // sum of products of fresh inputs
            for i in 0..k {
                a.clear(x);
                a.clear(y);
                a.input(x);
                a.input(y);
                a.add(y, consts[i]);
                mul(&mut a, x, y);
                a.while_(x, |a| {
                    a.add(acc, 1);
                    a.add(x, -1);
                });
            }
        }
        3 => {
            // squares with additions: acc = acc * acc + c_i
            a.input(acc);
            for i in 0..k {
                // y = acc (acc kept)
                a.clear(y);
                a.while_(acc, |a| {
                    a.add(y, 1);
                    a.add(t, 1);
                    a.add(acc, -1);
                });
                a.while_(t, |a| {
                    a.add(acc, 1);
                    a.add(t, -1);
                });
                mul(&mut a, acc, y);
                a.add(acc, consts[i]);
            }
        }
        4 => {
            // Fibonacci-like fan-out over a row of cells: c[i+2] = c[i+1] + c[i] (both kept)
            let base = 5i64;
            a.input(base);
            a.input(base + 1);
            for i in 0..k as i64 {
                for src in [base + i, base + i + 1] {
                    a.while_(src, |a| {
                        a.add(base + i + 2, 1);
                        a.add(t, 1);
                        a.add(src, -1);
                    });
                    a.while_(t, |a| {
                        a.add(src, 1);
                        a.add(t, -1);
                    });
                }
            }
            a.while_(base + k as i64 + 1, |a| {
                a.add(acc, 1);
                a.add(base + k as i64 + 1, -1);
            });
        }
        5 => {
            // nested ifs, each multiplying by a sum
            a.add(acc, 1);
            fn nest(a: &mut Asm, i: usize, k: usize, consts: &[i64]) {
                if i == k {
                    return;
                }
                a.clear(1);
                a.input(1);
                a.while_(1, |a| {
                    a.add(0, consts[i]);
                    nest(a, i + 1, k, consts);
                    a.clear(1);
                });
            }
            nest(&mut a, 0, k, consts);
        }
        6 => {
            // acc *= (x_i + y_i) with two fresh inputs per factor
            a.add(acc, 1);
            for i in 0..k {
                a.clear(x);
                a.clear(y);
                a.input(x);
                a.input(y);
                a.while_(y, |a| {
                    a.add(x, 1);
                    a.add(y, -1);
                });
                if flags[i] {
                    a.add(x, consts[i]);
                }
                mul(&mut a, acc, x);
            }
        }
        _ => {
            // a mix: alternate multiplication by an input sum and addition of a product
            a.add(acc, 1);
            for i in 0..k {
                a.clear(x);
                a.input(x);
                a.add(x, consts[i]);
                if flags[i] {
                    mul(&mut a, acc, x);
                } else {
                    a.clear(y);
                    a.input(y);
                    mul(&mut a, y, x);
                    a.while_(y, |a| {
                        a.add(acc, 1);
                        a.add(y, -1);
                    });
                }
            }
        }
    }
    a.output(acc);
    a.out
}

/// (construction at k, construction at 2k, k)
pub fn growth_pair(rng: &mut Rng) -> (String, String, usize) {
    let shape = rng.below(8) as u32;
    let k = rng.urange(4, 12);
    let consts: Vec<i64> = (0..2 * k).map(|_| rng.range(1, 3)).collect();
    let flags: Vec<bool> = (0..2 * k).map(|_| rng.coin()).collect();
    (growth_program(shape, k, &consts, &flags), growth_program(shape, 2 * k, &consts, &flags), k)
}
